"""
Plain pytest replay of violation artefacts, with no explorer involved.

  cd /verif && /venv/bin/python -m pytest -q tests/test_replays.py

Every JSON file under /verif/replays (written by a failing check, or by a check
that met a known finding), under /verif/regressions (artefacts of defects that
were repaired by a "fix:" commit) and next to each seeded change names a property, a kind and one case.  The test
imports the property's check module, runs that single case on the real code
twice and asserts that (a) the two runs observe the same thing (the harness is
deterministic) and (b) artefacts of *known findings* still reproduce.  For any
other artefact the test fails while the violation reproduces on the current
tree, which makes a stored artefact a regression test for its repair.
"""
import glob, importlib, json, os, signal, sys

import pytest

VERIF = os.path.dirname(os.path.dirname(os.path.abspath(__file__)))
sys.path.insert(0, VERIF)
from mc import runner            # noqa: E402
from mc.exact import from_json   # noqa: E402

runner.bind_repo()
ARTEFACTS = sorted(glob.glob(os.path.join(VERIF, "replays", "*.json")) +
                   glob.glob(os.path.join(VERIF, "regressions", "*.json")) +
                   glob.glob(os.path.join(VERIF, "seeded", "*", "replay-*.json")))


def run_artefact(path):
  with open(path) as f:
    art = json.load(f)
  module = importlib.import_module("mc.checks." + art["property"].lower())
  kind = module.KINDS[art["kind"]]
  signal.signal(signal.SIGALRM, runner._alarm)
  r = runner.run_one(kind, from_json(art["case"]))
  return art, (None if r.viol is None else (r.viol["key"], json.dumps(r.viol["observed"], sort_keys=True)))


@pytest.mark.parametrize("path", ARTEFACTS or [None])
def test_replay(path):
  if path is None:
    pytest.skip("no violation artefacts present")
  art, first = run_artefact(path)
  _, second = run_artefact(path)
  assert first == second, "replay is not deterministic"
  if "-known-" in os.path.basename(path):
    assert first is not None and first[0] == art["key"], "known finding no longer reproduces"
  else:
    if first is not None and "/seeded/" in path and first[0] != art["key"] and first[0].startswith("harness-exception"):
      # the artefact of a seeded change may name something that exists only WITH the change (a strategy the
      # change added, a schedule over synchronisation points the change introduced): on the unchanged tree
      # such a case cannot be run at all, which is not the violation coming back
      pytest.skip("the case refers to something that exists only with the seeded change applied")
    assert first is None, "violation %s still reproduces: %s" % (art["key"], art["what"])
