#!/usr/bin/env python3
"""
Audit helper: apply a patch to a scratch copy of /repo (outside /repo and
/verif), run the named checks against the copy (VERIF_REPO), optionally the
repository's own test suite, print a verdict table and remove the copy.

  tools/try_patch.py PATCH [--tests] [--tier quick] [--seeds 0,1] ID [ID...]

Exit 0 when every named check reported a VIOLATION on every seed.
"""
import sys, os, subprocess, tempfile, shutil, argparse, time

VERIF = os.path.dirname(os.path.dirname(os.path.abspath(__file__)))


def main():
  ap = argparse.ArgumentParser()
  ap.add_argument("patch")
  ap.add_argument("ids", nargs="*")
  ap.add_argument("--tests", action="store_true")
  ap.add_argument("--tier", default="quick")
  ap.add_argument("--seeds", default="0")
  ap.add_argument("--keep", action="store_true")
  a = ap.parse_args()
  tmp = tempfile.mkdtemp(prefix="alz_mut_")
  try:
    dst = os.path.join(tmp, "repo")
    subprocess.check_call(["git", "-C", "/repo", "worktree", "add", "--detach",
                           "-f", dst, "HEAD"], stdout=subprocess.DEVNULL,
                          stderr=subprocess.DEVNULL)
    # bring over uncommitted working-tree state of /repo too (checks must
    # follow the working tree, so do mutants)
    diff = subprocess.run(["git", "-C", "/repo", "diff", "HEAD"],
                          stdout=subprocess.PIPE).stdout
    if diff.strip():
      subprocess.run(["git", "-C", dst, "apply"], input=diff, check=True)
    r = subprocess.run(["git", "-C", dst, "apply", os.path.abspath(a.patch)])
    if r.returncode:
      print("PATCH-DOES-NOT-APPLY", a.patch)
      return 2
    ok = True
    if a.tests:
      t0 = time.time()
      p = subprocess.run([os.path.join(VERIF, "tools", "baseline.py"), dst],
                         stdout=subprocess.PIPE, stderr=subprocess.STDOUT,
                         universal_newlines=True)
      print("tests: exit=%d %s (%.0fs)" % (p.returncode,
            " | ".join(p.stdout.strip().splitlines()[-2:]), time.time() - t0))
      if p.returncode:
        print(p.stdout[-1500:])
    for pid in a.ids:
      for seed in a.seeds.split(","):
        t0 = time.time()
        p = subprocess.run([os.path.join(VERIF, "check"), pid, "--tier", a.tier,
                            "--seed", seed], stdout=subprocess.PIPE,
                           stderr=subprocess.STDOUT, universal_newlines=True,
                           env=dict(os.environ, VERIF_REPO=dst))
        viol = [l for l in p.stdout.splitlines() if l.startswith("VIOLATION")]
        det = p.returncode == 1 and bool(viol)
        ok &= det
        print("%-5s seed=%s exit=%d %s (%.1fs) %s" % (
            pid, seed, p.returncode, "DETECTED" if det else "MISSED",
            time.time() - t0, viol[0] if viol else ""))
        if det:
          ks = [l.strip() for l in p.stdout.splitlines() if l.strip().startswith("kind=")]
          for k in ks[:4]:
            print("      " + k)
        elif p.returncode not in (0, 1):
          print(p.stdout[-1500:])
    return 0 if ok else 1
  finally:
    if not a.keep:
      subprocess.run(["git", "-C", "/repo", "worktree", "remove", "--force", dst],
                     stdout=subprocess.DEVNULL, stderr=subprocess.DEVNULL)
      shutil.rmtree(tmp, ignore_errors=True)
      subprocess.run(["git", "-C", "/repo", "worktree", "prune"])
    else:
      print("kept", tmp)


if __name__ == "__main__":
  sys.exit(main())
