#!/usr/bin/env python3
"""
Confirm a seeded property-breaking change produced by a sub-agent and keep it:

  tools/adopt_seed.py SRC_DIR SEED_ID PROPERTY [--checks C03,C02] [--tier quick]

SRC_DIR holds patch.diff, demo.py, notes.md.  In a scratch worktree of /repo
(outside /repo and /verif) this (1) runs demo.py on the unchanged tree (must
exit 0), (2) applies the patch, (3) runs the pinned test suite (no stable test
may regress), (4) runs demo.py again (must exit non-zero), (5) runs the named
checks against the patched tree, and writes /verif/seeded/SEED_ID/ with
patch.diff, demo.py, notes.md and meta.json.  The worktree is removed.
"""
import sys, os, subprocess, tempfile, shutil, argparse, json, time

VERIF = os.path.dirname(os.path.dirname(os.path.abspath(__file__)))


def sh(cmd, **kw):
  return subprocess.run(cmd, stdout=subprocess.PIPE, stderr=subprocess.STDOUT,
                        universal_newlines=True, **kw)


def main():
  ap = argparse.ArgumentParser()
  ap.add_argument("src"); ap.add_argument("seed_id"); ap.add_argument("prop")
  ap.add_argument("--checks"); ap.add_argument("--tier", default="quick")
  ap.add_argument("--seeds", default="0,1")
  ap.add_argument("--skip-tests", action="store_true")
  a = ap.parse_args()
  checks = (a.checks or a.prop).split(",")
  tmp = tempfile.mkdtemp(prefix="alz_seed_")
  dst = os.path.join(tmp, "repo")
  meta = {"seed_id": a.seed_id, "breaks_property": a.prop, "confirmed": False}
  try:
    subprocess.check_call(["git", "-C", "/repo", "worktree", "add", "--detach", "-f", dst, "HEAD"],
                          stdout=subprocess.DEVNULL, stderr=subprocess.DEVNULL)
    meta["repo_head"] = sh(["git", "-C", "/repo", "rev-parse", "--short", "HEAD"]).stdout.strip()
    env = dict(os.environ, PYTHONPATH=dst, PYTHONWARNINGS="ignore")
    demo = os.path.join(a.src, "demo.py")
    p = sh(["/venv/bin/python", demo], env=env, cwd=tmp, timeout=600)
    meta["demo_unchanged_exit"] = p.returncode
    print("demo on unchanged tree: exit", p.returncode)
    p = sh(["git", "-C", dst, "apply", "--3way", os.path.abspath(os.path.join(a.src, "patch.diff"))])
    if p.returncode:
      p = sh(["git", "-C", dst, "apply", os.path.abspath(os.path.join(a.src, "patch.diff"))])
    if p.returncode:
      print("PATCH DOES NOT APPLY\n" + p.stdout); meta["error"] = "patch does not apply"
      return 2
    patch_now = sh(["git", "-C", dst, "diff", "HEAD"]).stdout
    if not a.skip_tests:
      t0 = time.time()
      p = sh([os.path.join(VERIF, "tools", "baseline.py"), dst])
      meta["tests"] = p.stdout.strip().splitlines()[-1] if p.returncode == 0 else p.stdout[-800:]
      meta["tests_exit"] = p.returncode
      print("test suite with change: exit %d  %s (%.0fs)" % (p.returncode, p.stdout.strip().splitlines()[-1][:120], time.time() - t0))
    p = sh(["/venv/bin/python", demo], env=env, cwd=tmp, timeout=600)
    meta["demo_changed_exit"] = p.returncode
    meta["demo_changed_output"] = p.stdout[-600:]
    print("demo with change: exit", p.returncode)
    det = {}
    for pid in checks:
      for seed in a.seeds.split(","):
        t0 = time.time()
        p = sh([os.path.join(VERIF, "check"), pid, "--tier", a.tier, "--seed", seed],
               env=dict(os.environ, VERIF_REPO=dst))
        viol = [l for l in p.stdout.splitlines() if l.startswith("VIOLATION")]
        kinds = [l.strip() for l in p.stdout.splitlines() if l.strip().startswith("kind=")]
        ok = p.returncode == 1 and bool(viol)
        det["%s seed=%s" % (pid, seed)] = {"detected": ok, "exit": p.returncode,
                                           "first": kinds[:3], "wall_s": round(time.time() - t0, 1)}
        print("  check %s seed=%s: %s %s (%.1fs)" % (pid, seed, "DETECTED" if ok else "MISSED exit=%d" % p.returncode,
                                                     kinds[0] if kinds else "", time.time() - t0))
        if p.returncode not in (0, 1):
          print(p.stdout[-1200:])
    meta["checks"] = det
    meta["confirmed"] = (meta["demo_unchanged_exit"] == 0 and meta["demo_changed_exit"] != 0
                         and (a.skip_tests or meta.get("tests_exit") == 0))
    meta["what_i_ran"] = ("scratch worktree of /repo@%s: demo.py (exit 0), git apply patch.diff, tools/baseline.py "
                          "(pinned suite, regressions=0), demo.py (exit !=0), ./check <ids> with VERIF_REPO=<worktree>"
                          % meta["repo_head"])
    out = os.path.join(VERIF, "seeded", a.seed_id)
    os.makedirs(out, exist_ok=True)
    with open(os.path.join(out, "patch.diff"), "w") as f:
      f.write(patch_now)
    for fn in ("demo.py", "notes.md"):
      if os.path.exists(os.path.join(a.src, fn)):
        shutil.copy(os.path.join(a.src, fn), os.path.join(out, fn))
    notes = os.path.join(a.src, "notes.md")
    if os.path.exists(notes):
      meta["needs_to_manifest"] = open(notes).read()[:1500]
    with open(os.path.join(out, "meta.json"), "w") as f:
      json.dump(meta, f, indent=1); f.write("\n")
    print("confirmed=%s -> %s" % (meta["confirmed"], out))
    return 0 if meta["confirmed"] else 1
  finally:
    subprocess.run(["git", "-C", "/repo", "worktree", "remove", "--force", dst],
                   stdout=subprocess.DEVNULL, stderr=subprocess.DEVNULL)
    shutil.rmtree(tmp, ignore_errors=True)
    subprocess.run(["git", "-C", "/repo", "worktree", "prune"])


if __name__ == "__main__":
  sys.exit(main())
