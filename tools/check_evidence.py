#!/usr/bin/env python3-vt
"""Validate every /verif/evidence/<id>.json against the schema and against what a committed
record must be: written by a FULL run of the check against /repo itself, zero violations."""
import json, sys, os, glob
import jsonschema
VERIF = os.path.dirname(os.path.dirname(os.path.abspath(__file__)))
schema = json.load(open("/root/.vp/EVIDENCE.schema.json"))
man = json.load(open(os.path.join(VERIF, "MANIFEST.json")))
ok = True
for c in man["checks"]:
  pid = c["property_id"]
  p = os.path.join(VERIF, "evidence", pid + ".json")
  try:
    ev = json.load(open(p))
    jsonschema.validate(ev, schema)
    cov = ev["coverage"]
    problems = []
    if cov.get("source_tree") != "/repo": problems.append("source_tree=%s" % cov.get("source_tree"))
    if any("partial run" in str(x) for x in cov.get("caps_hit", [])): problems.append("partial run")
    if cov.get("distinct_nontrivial", 0) < 2: problems.append("distinct_nontrivial<2")
    if ev.get("violations", 0): problems.append("violations=%s" % ev["violations"])
    if ev.get("level") != c.get("level", ev.get("level")): problems.append("level differs from MANIFEST")
    print("%s %-8s seed=%s eval=%-9s nontrivial=%-8s %s" % (pid, ev["tier"], ev["seed"], cov.get("evaluations"),
          cov.get("distinct_nontrivial"), "OK" if not problems else "PROBLEM " + ", ".join(problems)))
    ok &= not problems
  except Exception as exc:
    print(pid, "INVALID", str(exc)[:200]); ok = False
sys.exit(0 if ok else 1)
