#!/usr/bin/env python3
"""Regenerates /verif/MANIFEST.json from the table below (single source)."""
import json, os, sys

VERIF = os.path.dirname(os.path.dirname(os.path.abspath(__file__)))

E1 = "bounded-exhaustive enumeration of inputs/programs on the real code vs. a reference model"
E2 = "explicit-state search over operation histories, replayed on fresh real objects vs. a reference model"
E3 = "stateless schedule exploration (iterative pre-emption bounding) of the real lazy_io under a controlled scheduler"

# id -> (ready, engine, category, technique, text, note)
CHECKS = {
 "C08": (True, "E1", "exploration", E1,
  "Every (length, size, hop, pad, item kind, calling route) within the bound is executed on the real blocks / Stream.blocks / zero_pad and compared with the statement written as a list comprehension; exhaustive inside the bound, nothing sampled.",
  "Small-scope hypothesis for sizes/hops/lengths beyond the bound; item values are opaque to the code."),
 "C03": (True, "E2", "model_checking", E2,
  "Breadth-first search over all histories of Stream/StreamTeeHub/tee operations (about 41 letters per stream handle, 11 per hub, up to 4 live handles) on six initial pools: unmerged to depth 3 (thorough 4), merged by (model state, wrapper signature) one level deeper. Every transition replays the history on fresh real objects, compares the result with an immutable-sequence model and then drains every live handle, so independence of copies / tee outputs / thub uses is checked under every interleaving of consumption.",
  "Depth bound; alphabet of counts {None,-1,0,1,2,2.4,2.6,5,inf}; handles the contract forbids reusing are dead; no exact .5 ties."),
 "C15": (True, "E2", "model_checking", E2,
  "Closure search: breadth-first over every operation history of the real MultiKeyDict (5 keys x 4 values incl. 1 == 1.0, key tuples up to length 2; thorough 6 keys, tuples up to 3) and StrategyDict (4 names x 3 strategies; thorough 4 x 4) until no new canonical state appears, so every reachable state is visited and every operation applied from it; all observers and the three internal maps are compared with a reference model after each transition. The state count equals the closed-form number of reachable states.",
  "Small key/value universes (behaviour depends only on equality of keys/values); names do not shadow StrategyDict attributes."),
 "C16": (True, "E2", "model_checking", E2,
  "Merged breadth-first search over add/next/add(negative) histories of the real Streamix (tie-free delta alphabet, <=3 live events, depth 6; thorough 8) plus exhaustive unmerged programs (k<=3 events x 9 deltas x 3 lengths x every non-decreasing insertion point, exact ties accepted either way; thorough k<=4), long non-dyadic accumulations for drift, and all ControlStream assign/read words up to length 8 (thorough 10); oracle is the statement (cumulative start times), not the algorithm.",
  "Item values are opaque labels; adding after StopIteration is outside the contract; depth/size bounds."),
}

NOT_YET = "check not built yet in this session; see DESIGN.md section 4 for the planned model-checking harness"


def main():
  props = [json.loads(l) for l in open(os.path.join(VERIF, "properties.jsonl"))]
  checks, na = [], []
  for p in props:
    pid = p["id"]
    c = CHECKS.get(pid)
    if c is None or not c[0]:
      na.append({"property_id": pid, "reason": NOT_YET})
      continue
    ready, eng, cat, tech, text, note = c
    checks.append({
      "property_id": pid,
      "quick_cmd": "./check %s --tier quick" % pid,
      "thorough_cmd": "./check %s --tier thorough" % pid,
      "evidence_file": "/verif/evidence/%s.json" % pid,
      "replay_cmd_template": "./check %s --replay {path}" % pid,
      "engine": eng,
      "level_claimed": {"category": cat, "text": text,
                        "design_ref": "DESIGN.md section 4, %s" % pid},
      "level_note": note,
      "technique": tech,
    })
  man = {
    "version": 1,
    "setup_cmd": "/venv/bin/python -c \"import sys; sys.path.insert(0,'/repo'); import audiolazy\" && /venv/bin/python -m compileall -q /verif/mc >/dev/null",
    "hooks": {
      "guard": "AUDIOLAZY_VERIF",
      "enable": "no hooks are needed: the checks import audiolazy from the working tree (VERIF_REPO, default /repo) in a fresh interpreter, and the C17 scheduler loads a private copy of lazy_io with threading/pyaudio swapped at import time",
      "baseline_off_cmd": "cd /repo && /venv/bin/python -m pytest -ra -q -p no:cacheprovider --timeout=900 --continue-on-collection-errors",
      "source_commits": [],
      "add_only": True,
    },
    "engines": [
      {"name": "E1", "path": "/verif/mc/runner.py", "kind_free_text": E1,
       "serves_properties": [c["property_id"] for c in checks if c["engine"] == "E1"]},
      {"name": "E2", "path": "/verif/mc/histories.py", "kind_free_text": E2,
       "serves_properties": [c["property_id"] for c in checks if c["engine"] == "E2"]},
      {"name": "E3", "path": "/verif/mc/sched/", "kind_free_text": E3,
       "serves_properties": [c["property_id"] for c in checks if c["engine"] == "E3"]},
    ],
    "checks": checks,
    "notes": "All checks are model checking applied directly to the implementation: exhaustive enumeration of a bounded space of inputs, operation histories or thread schedules, each executed on the real code and compared with a reference model. VERIF_SEED only rotates enumeration order / value labels; every run is exhaustive within its stated bound. Known and fixed genuine defects are listed in /verif/known_findings.json.",
    "not_applicable": na,
  }
  with open(os.path.join(VERIF, "MANIFEST.json"), "w") as f:
    json.dump(man, f, indent=1)
    f.write("\n")
  print("claimed:", [c["property_id"] for c in checks])


if __name__ == "__main__":
  main()
