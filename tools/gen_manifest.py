#!/usr/bin/env python3
"""Regenerates /verif/MANIFEST.json from the table below (single source)."""
import json, os, sys

VERIF = os.path.dirname(os.path.dirname(os.path.abspath(__file__)))

E1 = "bounded-exhaustive enumeration of inputs/programs on the real code vs. a reference model"
E2 = "explicit-state search over operation histories, replayed on fresh real objects vs. a reference model"
E3 = "stateless schedule exploration (iterative pre-emption bounding) of the real lazy_io under a controlled scheduler"

# id -> (ready, engine, category, technique, text, note)
CHECKS = {
 "C08": (True, "E1", "exploration", E1,
  "Every (length, size, hop, pad, item kind, calling route) within the bound is executed on the real blocks / Stream.blocks / zero_pad and compared with the statement written as a list comprehension; exhaustive inside the bound, nothing sampled.",
  "Small-scope hypothesis for sizes/hops/lengths beyond the bound; item values are opaque to the code."),
 "C03": (True, "E2", "model_checking", E2,
  "Breadth-first search over all histories of Stream/StreamTeeHub/tee operations (about 41 letters per stream handle, 11 per hub, up to 4 live handles) on six initial pools: unmerged to depth 3 (thorough 4), merged by (model state, wrapper signature) one level deeper. Every transition replays the history on fresh real objects, compares the result with an immutable-sequence model and then drains every live handle, so independence of copies / tee outputs / thub uses is checked under every interleaving of consumption.",
  "Depth bound; alphabet of counts {None,-1,0,1,2,2.4,2.6,5,inf}; handles the contract forbids reusing are dead; no exact .5 ties."),
 "C15": (True, "E2", "model_checking", E2,
  "Closure search: breadth-first over every operation history of the real MultiKeyDict (5 keys x 4 values incl. 1 == 1.0, key tuples up to length 2; thorough 6 keys, tuples up to 3) and StrategyDict (4 names x 3 strategies; thorough 4 x 4) until no new canonical state appears, so every reachable state is visited and every operation applied from it; all observers and the three internal maps are compared with a reference model after each transition. The state count equals the closed-form number of reachable states. The StrategyDict search is repeated with strategies that are equal but never identical objects, and small universes with key tuples of length 3.",
  "Small key/value universes (behaviour depends only on equality of keys/values); two strategy names are also dict method names (they are attributes like any other)."),
 "C16": (True, "E2", "model_checking", E2,
  "Merged breadth-first search over add/next/add(negative) histories of the real Streamix (tie-free delta alphabet, <=3 live events, depth 6; thorough 8) plus exhaustive unmerged programs (k<=3 events x 9 deltas x 3 lengths x every non-decreasing insertion point, exact ties accepted either way; thorough k<=4), long non-dyadic accumulations for drift, and all ControlStream assign/read words up to length 8 (thorough 10); oracle is the statement (cumulative start times), not the algorithm.",
  "Item values are opaque labels; adding after StopIteration is outside the contract; depth/size bounds."),
 "C04": (True, "E1", "exploration", E1 + "; symbolic (linear-form) samples decide all numeric inputs of a shape in one run",
  "Every numerator/denominator coefficient vector of length <=3 (thorough <=4) over {0,1,-1,2,-3,0.5} with a0 in {1,-1,2,-0.5,Fraction(1,2)} is compiled by the real LinearFilter.__call__ and run on symbolic input, symbolic zero and symbolic memory (linear forms over Q, linearity checked not assumed) plus a concrete exact vector, and compared with the textbook recurrence; memory kinds x zero kinds x constructors x input lengths on a sub-alphabet; sparse high delays; negative delays must raise ValueError. Memories are given as list, longer list, generator, callable, Stream and Stream copy; coefficients within 1e-9 of 1 and two-digit delays are in the sparse set; the input sequence is handed over as list, tuple, Stream, iterator, generator and re-iterable object; a decoy filter of the same shape runs first in the same process. A `long` kind repeats the oracle on inputs of 64, 65, 128, 129 and hundreds to thousands of items (thresholds of batching / buffering / word size); a `call-routes` kind calls each function with every documented parameter by position, by keyword and every split, and requires unchanged argument containers.",
  "Coefficient alphabet and order bound; coefficients are plain numbers (they are embedded textually by the code generator)."),
 "C05": (True, "E1", "exploration", E1 + "; exact rational-function reference compared by cross-multiplication",
  "All ordered pairs of a 90-filter pool (thorough 400) under + - * / on symbolic input (composite output vs composition of outputs vs reference recurrence vs numpoly/denpoly by cross-multiplication), scalars/unary/powers/delays per filter, all triples of a sub-pool for Cascade/ParallelFilter and the field laws, all expression trees of depth <=2 over {+,-,*,/,**n,f(g)} against exact rational functions, ==/!=/hash on all pairs of (filter, construction route), fractional-delay linearisation.",
  "Pool/depth bounds; dyadic coefficients wherever a signal is run; == is structural equality."),
 "C06": (True, "E1", "exploration", E1 + " with counting sources on every coefficient stream",
  "Every placement of {absent, constant, 1, finite stream (len 0/2/5), periodic stream, constant stream} on b0..b2 and a0..a2 (60k shapes quick, 230k thorough) built through the dict constructor and Stream*z**-k expressions, run on symbolic input and compared with the time-varying recurrence on coefficient sequences, output length = shortest of input and coefficient streams, each coefficient source read exactly k times after k outputs; sums/products/scalings (incl. one stream feeding several product terms) vs element-by-element sequence arithmetic; constant streams vs constants. Products and quotients whose numerator and denominator share a time-varying factor must not cancel it. Calling a filter reads no coefficient; one filter object applied to two consecutive blocks goes on with the coefficient values after those already read, with one read per output sample over both calls. A `long` kind repeats the oracle on inputs of 64, 65, 128, 129 and hundreds to thousands of items (thresholds of batching / buffering / word size); a `call-routes` kind calls each function with every documented parameter by position, by keyword and every split, and requires unchanged argument containers.",
  "Order <= 2; degenerate 0/a0[n] shape excluded (see DESIGN.md); a Stream-bearing filter object is consumed by its use (called once, except in the blockwise kind)."),
 "C07": (True, "E1", "exploration", E1,
  "All ordered pairs of a pool of ~130 Laurent polynomials (thorough ~330; support -3..3, <=3 terms, coefficients in {1,-1,2,1/2,-3/2}, cancellation cases included) for + - *, commutativity, ==/!=/hash, evaluation homomorphism under all three schemes at 6 points, derivative linearity and product rule, composition; every polynomial alone for p-p, scalars, powers 0..3 (thorough 0..5), construction routes, order/values, diff/integrate; all triples of a sub-pool for associativity/distributivity; all 5460 Lagrange point sets (1..4 distinct abscissae) for both strategies. Exact Fractions throughout; no stored zero coefficient after any operation.",
  "Pool and exponent bounds; Laurent composition only with monomial inner polynomial; evaluation at 0 only without negative powers."),
 "C09": (True, "E1", "exploration", E1 + "; symbolic block samples, exact rational windows",
  "Every (size<=8, hop<=size, 0..6 blocks, window kind x values, normalise, size given/detected, hop given/defaulted, block container) (thorough size<=10, 8 blocks) is run through the real overlap_add.list on symbolic blocks and compared as linear forms with the windowed hop-shifted sum and the stated gain; blocking->overlap-add and identity-STFT reconstruction on every fully covered sample for all hop | size and the Bartlett window; 77k (thorough 203k) STFT wrapper configurations (sizes, hops, lengths, user function, transform pair, before/after, analysis window kind, ola strategy / None / recording fake, ola_wnd, ola_normalize, four calling styles) with recording stage functions: stage order, window-before-func, sizes passed, exactly size/hop/ola_-stripped options reaching the overlap-add.",
  "Bounds on size/blocks; hop <= size; pure-Python list strategy and stages only (numpy absent); error-raising behaviour is not part of the property and not demanded."),
 "C10": (True, "E1", "exploration", E1 + "; exact rational residuals of the normal equations",
  "All reflection vectors over {-1/2,-1/3,0,1/3,1/2,3/4}^p, p<=3 (thorough 4) x r0 x orders 0..p+2 and all data blocks of length <=5 (thorough 6) over {-1,0,1,2} x all orders are given to the real levinson_durbin / lpc.kautocor / lpc.kcovar with exact Q samples; the Yule-Walker / covariance residuals must be exactly zero, the error attribute must equal sum a_j r_j = r0*prod(1-k^2) = energy of the prediction residual, ParCorError iff a prediction error is zero; acorr/lag_matrix/toeplitz against their plain sums for every max_lag.",
  "Length/order bounds; kcovar's documented refusals are counted not failed; numpy strategies not exercised."),
 "C11": (True, "E1", "exploration", E1,
  "All reflection vectors over {+-1/2,+-1/3,+-2,-3/2,0,+-1} with non-zero last entry (length <=3, thorough 4) x gains x three construction routes: parcor must return them last first (and raise ParCorError exactly at the first |k|=1), step-up of the result rebuilds the filter, levinson error = r0*prod(1-k^2); all multisets of 12 root factors (real roots 0,+-1/2,3/4,+-1,+-2 and conjugate pairs inside/on/outside the circle) up to degree 4 x 4 leading coefficients x 2 numerators for parcor_stable, whose answer is known by construction. The same denominators with plain Fraction coefficients, and non-critical pole sets with plain int/float coefficients under 469 gains (ints 1..128, k/10), where the verdict must neither change nor raise.",
  "Degree <= 4; exact rational coefficients."),
 "C17": (True, "E3", "model_checking", E3,
  "The real lazy_io is loaded as a private module copy with threading replaced by a virtual module and pyaudio/_portaudio by a strict recording fake; every main program over {play, pause, resume, stop, close} (1 player with <=3 control operations at deviation bound 2, 2 players with <=1 at bound 1; thorough: 1 player <=4 ops bound 3, 2 players <=2 ops bound 2, 3 players) x wait x with-block/explicit close is executed under ALL schedules within the bound (pre-emptions of an enabled thread, or not yielding at a device write), executions run to completion; each execution is checked for deadlock/livelock, device bytes = prefix of iterable+padding in whole chunks (complete when wait and never stopped), device call protocol, exactly one close per stream, one terminate after them, no live thread, play refused, second close a no-op.",
  "GIL-atomic attribute access; scheduling points = virtual threading ops, backend calls, lines touching attributes assigned/mutated outside __init__ (AST scan); fake backend semantics; deviation bound."),
 "C18": (True, "E1", "exploration", E1,
  "WAV: files written with the stdlib wave module holding all 256 8-bit values, all 65536 16-bit values, and for 24/32 bit every sample whose bytes are drawn from {00,01,7f,80,fe,ff} (thorough adds 55,aa,10) plus +-2^k, +-2^k+-1, read back through the real WavStream (mono/stereo, keep on/off, by name and by file object, frame counts 0..5) and compared with int.from_bytes arithmetic (independent of struct); header mirrored; file closed exactly at exhaustion. chunks: both strategies x lengths 0..9 (13) x sizes {1,2,3,4,6,default,200,300} x formats b,h,i,f,d x byte orders {None,<,>,=,!} x value rotations incl. the extremes of each width, checked by unpacking the concatenated output and by comparing the two strategies byte for byte. For a file given by name the operating-system descriptor must be closed once the stream is exhausted (/proc/self/fd); long files cross the read-batch boundary; a path is rewritten and re-read inside one case.",
  "Value alphabets for 24/32 bit; type-appropriate values and pad values."),
 "C19": (True, "E1", "exploration", E1 + "; exact rational parameters, symbolic samples for the resampler",
  "Every generator over its parameter alphabet in exact Q arithmetic: line (8 durations x 5x5 values x finish), ones/zeros/impulse/fades (12 durations incl. None/inf), adsr/attack (constant and stream sustain), noise with an owned random source, modulo_counter over 4 starts x 3 moduli x 9 steps (negative, zero, multiples of the modulo, both internal paths) x all 8 numbers-vs-streams combinations x constant/varying streams and the end-with-shortest-stream rule, TableLookup oscillator/getitem/operators/harmonize/normalize, sinusoid (tolerance for sin only), karplus_strong vs the linearised comb, resample on symbolic inputs of length 0..10 (14) x 7 ratios x orders 0..3 x constant/stream ratios against window-placement + Lagrange basis written from the statement. A float kind of modulo_counter (starts a rounding error below zero, negative modulo, all 8 argument-kind paths) demands the range [0, modulo) and agreement of the paths; resample inputs are handed over as every container kind. A `long` kind repeats the oracle on inputs of 64, 65, 128, 129 and hundreds to thousands of items (thresholds of batching / buffering / word size); a `call-routes` kind calls each function with every documented parameter by position, by keyword and every split, and requires unchanged argument containers.",
  "Parameter alphabets; modulo streams constant; closed forms excluded where they divide by zero."),
 "C20": (True, "E1", "exploration", E1 + "; symbolic samples for the linear tools",
  "Moving averages (deque, recursive/feedback, fir) x sizes 1..8 x five zero kinds x lengths on symbolic input against the windowed mean (exact for power-of-two sizes, 4 ulp per coefficient otherwise), one filter object applied to two signals consumed in interleaved orders, all accumulate strategies on symbolic input incl. the empty input; amdf and the three envelope strategies on all sequences of length <=5 (6) over {-2,-1,0,1/2,1,3}; clip (all 16 limit pairs, idempotence, inverted limits), zcross (3 hysteresis x 6 first_sign values against a reference sign automaton) and unwrap (5 (max_delta, step) pairs: multiples of step, untouched when no jump, bounded adjacent jumps) on all sequences of length <=6 (7). Every tool configuration is also fed the same samples as tuple, Stream, one-shot iterator, generator, re-iterable object and Stream of an iterator and must give the list's answer. A `long` kind repeats the oracle on inputs of 64, 65, 128, 129 and hundreds to thousands of items (thresholds of batching / buffering / word size); a `call-routes` kind calls each function with every documented parameter by position, by keyword and every split, and requires unchanged argument containers.",
  "Sample alphabet for the non-linear tools; float 1./size rounding bounded, not exact, for non-power-of-two sizes."),
 "C14": (True, "E1", "exploration", E1 + "; float comparison under bounds derived from argument rounding",
  "Every strategy name and alias of window and wsymm (iterated from the dictionaries) x every size 1..512 (thorough 2048) x alpha grids for blackman and cos, each size asked for several alphas in sequence and twice in the same process: length, exact equality of window.X(size) with wsymm.X(size+1)[:size], symmetry, wsymm.X(1) == [1.0], range, documented closed form typed independently (64 ulp), independence of returned lists; hop-shifted sums for hann/hamming/bartlett/rect(+aliases) at size/2 and hann/hamming/blackman at size/4 for every admissible size; alias table and periodic/symm cross references. Returned lists (periodic and symmetric) are modified in place and the same and other strategies asked again: nothing may be shared.",
  "Grid of alphas (cos alpha >= 1); tolerances 64/256 ulp derived from the rounding of the cosine arguments."),
 "C01": (True, "E1", "exploration", E1,
  "All 35 operator methods of the table (read from OpMethod, checked to be installed on Stream) x route (dunder call / Python syntax) x other-operand kind (Stream, list, tuple, generator, scalar, periodic Stream, constant Stream) x length pairs {0..3}^2 x element types (int, bool, float, complex, Fraction, 2x2 matrix for @) against an independent interpreter that also predicts where and with which exception type an element-level error surfaces; 131k expression trees of depth <=2 (thorough ~1.6M incl. binary combinations of depth-1 trees) over int leaves; every function of lazy_math/lazy_midi x 12 container kinds x positional/keyword route (scalar -> scalar equal to the plain math value, container kind preserved, lazy kinds give a generator that reads nothing before being consumed and one item per output), secondary parameters and the elementwise decorator itself.",
  "Length/depth bounds; element alphabets; where Python's own dispatch transforms an operand before the Stream sees it (Fraction ** Stream) the syntax route is not demanded."),
 "C02": (True, "E1", "exploration", E1 + " with counting / tripwire sources",
  "A catalogue of ~120 processing stages (Stream operators and methods, thub/tee, every classified name of lazy_itertools, constant and time-varying filters, cascade/parallel, designed filters with stream parameters, blocks/zero_pad/chunks, moving averages, envelopes, amdf, clip, zcross, unwrap, Streamix, modulo_counter/TableLookup with stream arguments, resample x 4 ratios x 4 orders, overlap_add.list with declared and detected size, the STFT wrapper) each with the source allowance the statement grants for k outputs, run on counting sources over an endless sequence with a tripwire one item beyond the allowance: zero reads at construction, pull counts after each of k = 1..8 (24) outputs, no read-ahead when a limit(n) downstream is drained or a finite stage ends; all 2-stage (thorough 3-stage) compositions of composable stages with composed allowances.",
  "K bound; filter memory is not a source; eager itertools (product, permutations, combinations) excluded by definition."),
 "C12": (True, "E1", "exploration", E1 + " on an explicit frequency grid with derived rounding bounds",
  "80 (thorough 143) filters x float and exact coefficient types x {0, pi, k*pi/8} + a 64 (1024) point grid: the library's float freq_response vs numerator/denominator evaluated in exact rational complex arithmetic at the same dyadic z0 = exp(-jw), under a bound derived from the evaluation scheme (ill-conditioned points skipped and counted), nan exactly where the denominator vanishes, container kinds mapped element by element; cascades (product) and parallel banks (sum) of 1..3 filters incl. branches sharing a denominator; unnormalised DFT of a FIR impulse response = freq_response, complex exponential through a FIR filter scaled by freq_response once the memory is full; dft = defining sum for single and multi-frequency calls in several orders, linearity, DC bin = mean. Banks and banks nested in banks are asked over list, tuple, Stream, generator and endless Stream frequency containers and must give the scalar result per element; banks changed in place after use respond as their current members.",
  "Grid-exhaustive only (nothing between grid points); bound constants stated in the evidence."),
 "C13": (True, "E1", "exploration", E1 + " on explicit parameter grids, coefficients evaluated exactly",
  "Every strategy and alias (iterated from the StrategyDicts) of lowpass/highpass x 256 (4096) cut-offs in [1e-3, pi-1e-3]: unit gain at DC/Nyquist, pole strictly inside, half power at the cut-off and monotone magnitude for the pole/z designs; resonators x 96 (512) frequencies x 16 (64) bandwidths: a2 = e^-bw, unit gain at the resonant frequency (analytic peak for the freq_* strategies, vacuous cases counted), maximum there; combs x delays x alphas/taus by exact impulse-train response; gammatone strategies x 48x8 (256x32): every section stable (Jury), unit cascade gain at the centre frequency; stream-valued parameters for every design: coefficients equal the constant designs' sample by sample. Gains are computed exactly from the returned float coefficients; tolerances = 64u x conditioning (derived). Parameters are also handed over as list, tuple, iterator and generator: a kind the design rejects with TypeError is counted as unsupported, an accepted one must give the Stream design.",
  "Grid-exhaustive only; tolerances scaled by conditioning as stated in the evidence."),
}

# further kinds added by the later audit waves (appended to the text of the check)
LATER = {
 "C01": "Later kinds: operands of 300+ items, operator-method-operator chains, consumed periodic operands, scalars with __getitem__; the element of a broadcast result must be exactly the scalar call's value over a menu of powers of ten and two, and a Stream given to a broadcasting function stays the caller's (another object comes back, the input keeps its own elements); operators on elements that are mutable containers (lists, sets, dicts; one object repeated, a hub feeding two expressions): new values, operands unchanged.",
 "C02": "Later additions: endless-memory tripwires for filters, float / Fraction / bool counts, keyword routes, 1200 nested operators and 700 gain stages, a 300 / 1200 output run per stage; coefficient / parameter sources read n times when the input ends after n samples; a finite note inside a mixer that keeps running; reflected operators with a finite left iterable; a mixer read beside an idle one.",
 "C03": "Later kinds: call routes, structural parameter types, 3-operation permutations on 5000-item streams, copy / tee of Stream subclasses and hubs, tee of 19 kinds of input for n = 0..3 under every order of single-item consumption, 17 non-iterables (incl. class objects whose instances are iterable) for thub; a hub garbage-collected with uses never taken while uses handed out are half read; tee of a hub counted as one use; lists returned by peek / take overwritten by the caller at once.",
 "C04": "Later additions: coefficient types (int, float, Fraction, complex, big ints) incl. one type on both sides of a delay, shapes with 31..200 terms, filters alive together, decoy filters run first in the same process (same delays and other values; everything equal but a0), structural parameter types.",
 "C05": "Later kinds: banks nested in banks, powers to 9 and negative powers run on signals, float-exponent delays, exactness with 2**60+1 coefficients, call routes; numbers and coefficient lists as bank members (first / last) on list, tuple, Stream and iterator inputs; banks edited in place (member replaced / appended / removed).",
 "C06": "Later kinds: hubs of coefficients shared by several filters, stereo use of one filter, sums on a shared denominator object, a ControlStream coefficient under copying algebra, quotients with delayed / one-term stream divisors, constructor argument forms (bare Stream / ControlStream / hub / number / list / dict / filter x denominator forms x positional / keyword); one hub in several coefficient positions of one filter run directly, through copies, and copy plus original.",
 "C07": "Later additions: exponents to 9, == / != / set membership of polynomials hashed beforehand (pairs differing only where hash(-1) == hash(-2)), float powers, same-object products, call routes.",
 "C08": "Later additions: identity of the pad object, abandoned zero_pad views, pad counts beyond 2**63, an endless hop, inputs of 1000+ items, the read count at the moment a block is produced, old-protocol sequences (__len__ / __getitem__ only), a buffer filled between the call and the first block.",
 "C09": "Later additions: seven calling styles incl. a configured partial used as the parent of several processors, a second call of the same processor, callable / iterable / library windows, processing callables without __name__, default-hop overlap-add, call routes and structural parameter types; short-lived window callables before the real one; None given at the call replacing a stored option.",
 "C10": "Later additions: shared lag lists (argument unchanged), results held across later calls, int / Fraction lag types, blocks of 33..512 samples, call routes incl. order >= len; all blocks of 1..3 (4) plain ints up to full scale plus constant / alternating full-scale blocks for acorr and lag_matrix.",
 "C11": "Later additions: |k| > 1 and a last coefficient of magnitude 1 through levinson_durbin, near-circle roots, orders 8..33 and comb denominators of order 300 and 1200; real coefficients typed complex; lags as a tuple and the caller's list unchanged.",
 "C12": "Later additions: long FIRs, complex blocks, the block's own FFT-bin frequencies and non-bin frequencies for dft, impulse-vs-response and exponential probes with a0 in {2, -1/2, 4} after the same taps with other gains, frequencies given as tuple / iterator / generator / Stream / map, call routes.",
 "C13": "Later additions: hub parameters (one use taken, the caller's use intact), stream-valued parameters by keyword as well as by position, near-unit alphas and huge / negative taus for comb, gammatone.sampled orders 1..3, the cascade's own freq_response at the centre frequency, call routes.",
 "C14": "Later additions: aliasing between strategies of wsymm, cos alphas {0, 1, 1.5, 2, 3, 4}, call routes and structural parameter types.",
 "C15": "Later kinds: strategies that are equal but never identical, key names that are dict method names, long deterministic histories on wide universes; every reached state cast to a new MultiKeyDict three ways (equal and independent); an unhashable value as an assignment that raises and changes nothing.",
 "C16": "Later additions: the keep switch as an operation, a probe of the real mixer after every operation that leaves the model state unchanged, mixers fed through ControlStream routes, zero values and items that are strings / tuples / Fractions / complex, mixers as events of mixers, call routes.",
 "C17": "Later additions: an endless player with 3 control operations one deviation deeper, the chunk size taken from chunks.size, play refused twice after close, plain two-player programs at two deviations in the quick tier, an unbounded stateful search (canonical state at every decision point) for the small programs; a play() the backend or the format table refuses inside ordinary histories; monitoring programs whose played iterable is the manager's own io.record(); played iterables as tuple / Stream / iterator / deque; virtual RLock / Condition / Semaphore incl. class-level primitives.",
 "C18": "Later additions: interleaved reads of two files, file objects not at offset 0, a user-changed default chunk size, descriptor accounting through /proc/self/fd, call routes; chunks of Streams / copies / iterators / tuples / deques; zeros of both signs compared as bytes.",
 "C19": "Later additions: float modulo_counter paths, karplus_strong memories shorter / longer than the comb's order (list, tuple, Stream, callable, None), noise through an owned random seam; resample after the neighbouring orders in the same process.",
 "C20": "Later additions: fractional clip limits, negative / zero unwrap steps, plain int / Fraction samples, zcross with plain Fraction samples exactly on non-dyadic thresholds (1/10, 1/5, 9/10); unwrap with exactly one of max_delta / step left at its documented default.",
}

NOT_YET = "check not built yet in this session; see DESIGN.md section 4 for the planned model-checking harness"


def main():
  props = [json.loads(l) for l in open(os.path.join(VERIF, "properties.jsonl"))]
  checks, na = [], []
  for p in props:
    pid = p["id"]
    c = CHECKS.get(pid)
    if c is None or not c[0]:
      na.append({"property_id": pid, "reason": NOT_YET})
      continue
    ready, eng, cat, tech, text, note = c
    if pid in LATER:
      text = text + " " + LATER[pid]
    checks.append({
      "property_id": pid,
      "quick_cmd": "./check %s --tier quick" % pid,
      "thorough_cmd": "./check %s --tier thorough" % pid,
      "evidence_file": "/verif/evidence/%s.json" % pid,
      "replay_cmd_template": "./check %s --replay {path}" % pid,
      "engine": eng,
      "level_claimed": {"category": cat, "text": text,
                        "design_ref": "DESIGN.md section 4, %s" % pid},
      "level_note": note,
      "technique": tech,
    })
  man = {
    "version": 1,
    "setup_cmd": "/venv/bin/python -c \"import sys; sys.path.insert(0,'/repo'); import audiolazy\" && /venv/bin/python -m compileall -q /verif/mc >/dev/null",
    "hooks": {
      "guard": "AUDIOLAZY_VERIF",
      "enable": "no hooks are needed: the checks import audiolazy from the working tree (VERIF_REPO, default /repo) in a fresh interpreter, and the C17 scheduler loads a private copy of lazy_io with threading/pyaudio swapped at import time",
      "baseline_off_cmd": "cd /repo && /venv/bin/python -m pytest -ra -q -p no:cacheprovider --timeout=900 --continue-on-collection-errors",
      "source_commits": [],
      "add_only": True,
    },
    "engines": [
      {"name": "E1", "path": "/verif/mc/runner.py", "kind_free_text": E1,
       "serves_properties": [c["property_id"] for c in checks if c["engine"] == "E1"]},
      {"name": "E2", "path": "/verif/mc/histories.py", "kind_free_text": E2,
       "serves_properties": [c["property_id"] for c in checks if c["engine"] == "E2"]},
      {"name": "E3", "path": "/verif/mc/sched/", "kind_free_text": E3,
       "serves_properties": [c["property_id"] for c in checks if c["engine"] == "E3"]},
    ],
    "checks": checks,
    "notes": "All checks are model checking applied directly to the implementation: exhaustive enumeration of a bounded space of inputs, operation histories or thread schedules, each executed on the real code and compared with a reference model. VERIF_SEED only rotates enumeration order / value labels; every run is exhaustive within its stated bound. Known and fixed genuine defects are listed in /verif/known_findings.json.",
    "not_applicable": na,
  }
  with open(os.path.join(VERIF, "MANIFEST.json"), "w") as f:
    json.dump(man, f, indent=1)
    f.write("\n")
  print("claimed:", [c["property_id"] for c in checks])


if __name__ == "__main__":
  main()
