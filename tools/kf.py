#!/usr/bin/env python3
"""Append an entry to known_findings.json (used while developing, never by a check).
  tools/kf.py fixed C03 <commit> "stream:take" "Stream([1,2]).take(3) raised RuntimeError"
  tools/kf.py finding C17 - "key" "what"
"""
import sys, json, os
p = os.path.join(os.path.dirname(os.path.dirname(os.path.abspath(__file__))), "known_findings.json")
d = json.load(open(p))
status, prop, commit, key, what = sys.argv[1:6]
e = {"property": prop, "key": key, "status": status, "what": what}
if status == "fixed":
  e["commit"] = commit
  e["line"] = "fixed: property=%s %s %s" % (prop, commit, what)
d["entries"] = [x for x in d["entries"] if not (x["property"] == prop and x["key"] == key)] + [e]
json.dump(d, open(p, "w"), indent=1); open(p, "a").write("\n")
