#!/usr/bin/env python3
"""Run the repository's pinned test suite in DIR (default /repo) and compare with
BASELINE.json's stable_pass list.  Exit 0 iff every stable test still passes.
  tools/baseline.py [DIR]
"""
import sys, os, json, subprocess, tempfile, xml.etree.ElementTree as ET
d = os.path.abspath(sys.argv[1] if len(sys.argv) > 1 else "/repo")
base = json.load(open("/root/.vp/BASELINE.json"))
fd, xml = tempfile.mkstemp(suffix=".xml", prefix="alz_junit_"); os.close(fd)
env = dict(os.environ, PYTHONPATH=d)
env.pop("AUDIOLAZY_VERIF", None)
p = subprocess.run(["/venv/bin/python", "-m", "pytest", "-ra", "-q", "-p", "no:cacheprovider",
                    "--timeout=900", "--continue-on-collection-errors", "--junitxml=" + xml],
                   cwd=d, stdout=subprocess.PIPE, stderr=subprocess.STDOUT, universal_newlines=True, env=env)
passed, failed = set(), set()
for tc in ET.parse(xml).getroot().iter("testcase"):
  tid = (tc.get("classname") or "") + "::" + (tc.get("name") or "")
  if tc.find("failure") is not None or tc.find("error") is not None: failed.add(tid)
  elif tc.find("skipped") is not None: pass
  else: passed.add(tid)
os.unlink(xml)
passed -= failed
missing = sorted(set(base["stable_pass"]) - passed)
new = sorted(passed - set(base["stable_pass"]))
print(p.stdout.strip().splitlines()[-1])
print("stable_pass=%d still_passing=%d regressions=%d newly_passing=%d"
      % (len(base["stable_pass"]), len(base["stable_pass"]) - len(missing), len(missing), len(new)))
for m in missing[:20]: print("  REGRESSION", m)
sys.exit(1 if missing else 0)
