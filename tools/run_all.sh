#!/bin/bash
# tools/run_all.sh [tier] [seed]  - run every claimed check once, print one line each
cd "$(dirname "$(readlink -f "$0")")/.." || exit 3
tier=${1:-quick}; seed=${2:-0}; fail=0
for id in $(python3 -c "import json;print(' '.join(c['property_id'] for c in json.load(open('MANIFEST.json'))['checks']))"); do
  s=$(date +%s.%N)
  out=$(VERIF_SEED=$seed ./check $id --tier $tier 2>&1); rc=$?
  e=$(date +%s.%N)
  printf "%s rc=%d %6.1fs  %s\n" $id $rc $(echo "$e - $s" | bc) "$(echo "$out" | grep -E '^(OK|FAIL|KNOWN-FINDING|VIOLATION|HARNESS)' | head -2 | tr '\n' ' ' | cut -c1-150)"
  [ $rc -ne 0 ] && fail=1
done
exit $fail
