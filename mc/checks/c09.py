"""
C09 - Overlap-add is the windowed hop-shifted sum and inverts blocking.

E1 with formal samples: every (size, hop, block count, window kind, normalise,
size given/detected, hop given/defaulted) within the bound is run through the
real ``overlap_add.list`` on blocks of symbolic samples and compared, as linear
forms, with  out[n] = sum_k g*w[n-k*h]*B_k[n-k*h];  blocking followed by
overlap-add must reconstruct the signal where it is fully covered; the STFT
wrapper is enumerated over its calling styles, stage options and error cases
with recording stage functions.
"""
from collections import OrderedDict, deque
from fractions import Fraction as F
import itertools, math
from ..runner import Kind, R, bad
from ..exact import Q, Sym, sym, syms, NonLinear
from .c08 import ref_blocks

from audiolazy import overlap_add, stft, blocks, Stream, window

PROPERTY = "C09"
LEVEL = "exploration"
RULE = ("all (size, hop<=size, block count, window kind/values, normalise, size given or detected, "
        "hop given or defaulted, block container) for overlap_add.list; all (size, hop, length) for "
        "reconstruction; all STFT wrapper configurations in the bound; non-trivial: at least two "
        "blocks overlap (hop < size, m >= 2) or a stage function/window is present")
ASSUMPTIONS = [
  "block samples are symbolic (linear forms), windows are exact rationals; the library's no-window "
  "gain is the float 1/ceil(size/hop): the oracle uses that same dyadic value exactly",
  "reconstruction is exact when size/hop is a power of two, otherwise within 4 ulp per coefficient "
  "(the single rounding of 1/ceil(size/hop))",
  "only the pure-Python 'list' strategy and pure-Python transform stages (numpy is absent)",
]

U = 2.0 ** -53


def bounds(run):
  return {"size": "1..%d" % run.pick(8, 10), "hop": "1..size", "blocks": "0..%d" % run.pick(6, 8),
          "window_kinds": WKINDS, "window_values": list(WVALS), "containers": CONT,
          "stft": {"size": "1..%d" % run.pick(4, 6), "input_length": "0..%d" % run.pick(7, 10)}}


WKINDS = ["none", "list", "tuple", "callable", "generator", "stream", "callable-shared", "callable-iterable"]
WVALS = {"ramp": lambda i, n: Q(i + 1, 2), "mixed": lambda i, n: [Q(1, 2), Q(-1), Q(0), Q(2), Q(-3, 4)][i % 5],
         "zeros": lambda i, n: Q(0),
         # magnitudes far from 1: the gain is the reciprocal of the strided sum whatever its size
         "tiny": lambda i, n: Q(i + 1, 2) * Q(F(1, 2 ** 200)), "huge": lambda i, n: Q(i % 3 + 1) * Q(2 ** 200),
         "subepsilon": lambda i, n: Q([1, 3, 3, 1][i % 4]) * Q(F(1, 2 ** 60))}
CONT = ["list", "tuple", "iter", "deque"]


def wvalues(name, size):
  return [WVALS[name](i, size) for i in range(size)]


def ref_gain_window(size, hop, w, normalize):
  """Effective per-sample factor g*w[i] (list of Q), per the statement."""
  if w is None:
    if not normalize:
      return [Q(1)] * size
    return [Q(1.0 / math.ceil(size / hop))] * size
  w = list(w)
  if normalize and w:
    gain = max(sum((abs(w[i]) for i in range(j, size, hop)), Q(0)) for j in range(min(hop, size)))
    if gain != 0:
      w = [v / gain for v in w]
  return w


def ref_ola(blks, size, hop, w, normalize):
  gw = ref_gain_window(size, hop, w, normalize)
  m = len(blks)
  total = m * hop + size - hop
  out = [Sym(0) for _ in range(total)]
  for k, b in enumerate(blks):
    for i in range(size):
      out[k * hop + i] = out[k * hop + i] + gw[i] * b[i]
  return out


def lift(v):
  return Sym.lift(v)


def same_forms(got, exp, tol=0):
  if len(got) != len(exp):
    return False
  for g, e in zip(got, exp):
    g = lift(g)
    if g is None:
      return False
    if tol == 0:
      if g != e:
        return False
    else:
      d = g - e
      if abs(d.c) > tol or any(abs(c) > tol for c in d.t.values()):
        return False
  return True


def make_window(kind, vals, calls):
  if kind == "none":
    return None
  if kind == "list":
    return list(vals)
  if kind == "tuple":
    return tuple(vals)
  if kind == "generator":
    return (v for v in vals)
  if kind == "stream":
    return Stream(list(vals))
  if kind == "callable-shared":
    shared = list(vals)
    def wshared(size):
      calls.append(size)
      return shared              # the very same list object at every call (a memoised window)
    wshared.shared = shared
    return wshared
  if kind == "callable-iterable":
    class Factory(object):
      """Callable AND iterable, but no Stream - like the library's own ``window`` StrategyDict: it
      is a window *function* and must be called with the size, not iterated."""
      def __call__(self, size):
        calls.append(size)
        return list(vals)
      def __iter__(self):
        return iter([self.__call__, self.__call__])
    return Factory()
  def wfunc(size):
    calls.append(size)
    return list(vals)
  return wfunc


def container(kind, b):
  if kind == "list": return list(b)
  if kind == "tuple": return tuple(b)
  if kind == "deque": return deque(b)
  return iter(b)


# --------------------------------------------------------------- OLA core
def gen_ola(run):
  smax, mmax = run.pick(8, 10), run.pick(6, 8)
  for size in run.rot(range(1, smax + 1)):
    for hop in range(1, size + 1):
      for m in range(0, mmax + 1):
        for wk in WKINDS:
          for wv in (["ramp"] if wk == "none" else list(WVALS)):
            if wk not in ("list", "callable", "callable-shared", "callable-iterable") and wv != "ramp":
              continue
            for normalize in (True, False, None):
              for size_given in (True, False):
                for hop_given in ((True, False) if hop == size else (True,)):
                  cont = CONT[(size + hop + m) % len(CONT)] if size_given else ["list", "tuple", "deque"][(size + m) % 3]
                  yield (size, hop, m, wk, wv, normalize, size_given, hop_given, cont)
  # many blocks, large sizes (beyond any internal batch / buffer)
  for size, hop, m in ((16, 4, 40), (64, 16, 12), (100, 33, 8), (128, 128, 5), (33, 1, 70)):
    for wk in ("none", "list", "callable"):
      for normalize in (True, False):
        for size_given in (True, False):
          yield (size, hop, m, wk, "ramp", normalize, size_given, True, "list")


def run_ola(case):
  size, hop, m, wk, wv, normalize, size_given, hop_given, cont = case
  blks = [[sym("b%d_%d" % (k, i)) for i in range(size)] for k in range(m)]
  calls = []
  vals = wvalues(wv, size)
  if wk == "callable":
    # short-lived window callables of the same size first (made, used once, dropped): whatever a call keeps
    # about a window callable must not be found again by a NEW callable that happens to get the same address
    for i_ in range(6):
      tmp_vals = [v + i_ + 1 for v in vals]
      tmp_w = make_window(wk, tmp_vals, [])
      list(overlap_add.list([[1] * size, [2] * size], size=size, hop=hop, wnd=tmp_w, normalize=False))
      del tmp_w
  w = make_window(wk, vals, calls)
  kw = {}
  if size_given: kw["size"] = size
  if hop_given: kw["hop"] = hop
  if wk != "none": kw["wnd"] = w
  if normalize is not None: kw["normalize"] = normalize
  nt = (m >= 2 and hop < size) or wk != "none"
  src = (container(cont, b) for b in blks)
  try:
    res = overlap_add.list(src, **kw)
    if not isinstance(res, Stream):
      return bad("ola:type", "overlap_add.list must return a Stream", "Stream", type(res).__name__, nt)
    got = list(res)
  except NonLinear as exc:
    return bad("ola:nonlinear", "a block sample was used non-linearly", None, str(exc), nt)
  except Exception as exc:
    return bad("ola:exception:" + type(exc).__name__, "overlap_add.list raised",
               None, {"exc": type(exc).__name__, "msg": str(exc)[:200]}, nt)
  if m == 0 and not size_given:
    if got != []:
      return bad("ola:empty-detected", "no blocks and no size: the output must be empty", [], got, nt)
    return R(None, False, "empty")
  exp = ref_ola(blks, size, hop, None if wk == "none" else vals, True if normalize is None else normalize)
  if len(got) != len(exp):
    return bad("ola:length", "output must have m*hop+size-hop samples", len(exp), len(got), nt)
  if not same_forms(got, exp):
    return bad("ola:value", "output is not the windowed hop-shifted sum of the blocks",
               exp[:6], got[:6], nt)
  if wk == "callable" and calls != [size]:
    return bad("ola:window-callable", "a callable window must be asked once for the block size", [size], calls, nt)
  if wk == "callable-shared":
    # the window object the callable hands out belongs to the caller: a second overlap-add with
    # the same callable (other normalisation) must see the same window
    if w.shared != vals:
      return bad("ola:window-modified", "overlap_add modified the window list returned by the callable",
                 vals, w.shared, nt)
    for norm2 in (False, True):
      kw2 = dict(kw, normalize=norm2)
      got2 = list(overlap_add.list((container("list", b) for b in blks), **kw2))
      exp2 = ref_ola(blks, size, hop, vals, norm2) if (m or size_given) else []
      if not same_forms(got2, exp2):
        return bad("ola:window-reuse", "a second overlap-add with the same window callable gives a different "
                   "result (the window was changed by the first call)", exp2[:6], got2[:6], nt)
  return R(None, nt, (wk, normalize, m > 1 and hop < size))


# ---------------------------------------------------------- reconstruction
def gen_recon(run):
  smax = run.pick(8, 12)
  for route in ("blocks+ola", "stft"):
    for size in range(1, smax + 1):
      for hop in range(1, size + 1):
        if size % hop:
          continue
        for n in range(0, run.pick(18, 30)):
          yield (size, hop, n, "rect", route)
    for size in (2, 4, 8, 16):
      for n in range(0, run.pick(22, 40)):
        yield (size, size // 2, n, "bartlett", route)
        yield (size, size // 2, n, "bartlett-list", route)


def run_recon(case):
  size, hop, n, wnd, route = case
  x = syms("x", n)
  kw = {"size": size, "hop": hop}
  if wnd == "bartlett":
    kw["wnd"] = window.bartlett
  elif wnd == "bartlett-list":
    kw["wnd"] = [Q(1) - Q(2, size) * abs(Q(i) - Q(size, 2)) for i in range(size)]
  try:
    if route == "stft":
      # identity block processing; the analysis window carries the taper, the
      # overlap-add only sums (or, without a window, applies its default gain)
      skw = dict(size=size, hop=hop, transform=None, inverse_transform=None, before=None,
                 after=None, ola=overlap_add.list)
      if "wnd" in kw:
        skw.update(wnd=kw["wnd"], ola_wnd=None, ola_normalize=False)
      got = list(stft(lambda blk: blk, **skw)(list(x)))
    else:
      got = list(overlap_add.list(blocks(list(x), size=size, hop=hop, padval=Q(0)), **kw))
  except Exception as exc:
    return bad("recon:exception:" + type(exc).__name__, "blocking + overlap-add raised", None, str(exc)[:200])
  r = size // hop
  pow2 = r & (r - 1) == 0
  tol = 0 if pow2 else 4 * U
  # samples covered by size/hop blocks (counted from the blocks that exist)
  m = len(ref_blocks(list(x), size, hop, Q(0)))
  for i in range(0, n):
    if sum(1 for k in range(m) if k * hop <= i < k * hop + size) != r:
      continue
    if i >= len(got):
      return bad("recon:length", "reconstruction is shorter than the signal", n, len(got))
    g = lift(got[i])
    d = g - x[i]
    if abs(d.c) > tol or any(abs(c) > tol for c in d.t.values()):
      return bad("recon:value", "blocking followed by overlap-add does not return the signal on a "
                 "fully covered sample", {"n": i, "x": x[i]}, g)
  return R(None, n > size, (wnd, pow2, route))


# ------------------------------------------------------------------ STFT
FUNCS = ["identity", "reverse", "scale"]
STYLES = ["direct", "decorator", "partial-chain", "call-override", "partial-reassign", "partial-separately", "partial-sibling"]


def gen_stft(run):
  nmax = run.pick(7, 10)
  i = 0
  for size in run.pick((1, 2, 3, 4), (1, 2, 3, 4, 5, 6)):
    for hop in [None] + list(range(1, size + 1)):
      for n in range(0, nmax + 1):
        for func in FUNCS:
          for trans in (False, True, "pad"):
            for ba in (False, True):
              for wk in ("none", "list", "callable", "callable-iterable"):
                for ola in ("list", "none", "fake"):
                  for ola_wnd in ("absent", "None", "list"):
                    for ola_norm in ("absent", False, True):
                      if ola == "none" and (ola_wnd != "absent" or ola_norm != "absent"):
                        continue
                      i += 1
                      yield (size, hop, n, func, trans, ba, wk, ola, ola_wnd, ola_norm, STYLES[i % len(STYLES)])
  # block-processing callables that are not plain functions (no __name__): functools.partial objects and instances
  for size in (2, 4):
    for n in (0, 5):
      for fname in ("identity", "scale"):
        for style in STYLES:
          for fk in ("partial", "instance"):
            yield (size, size // 2, n, fname, False, False, "none", "list", "absent", "absent", style, "func:" + fk)
  # the analysis window handed over as a tuple / Stream / generator object, and a synthesis hop /
  # size that differs from the analysis one (ola_hop, ola_size: the prefixed option wins)
  for size in (2, 3, 4):
    for hop in [None] + list(range(1, size + 1)):
      for n in (0, 3, 7):
        for wk in ("tuple", "stream", "generator"):
          for ola in ("list", "none", "fake"):
            for style in STYLES:
              yield (size, hop, n, "identity", False, False, wk, ola, "absent", "absent", style)
        for style in STYLES:
          for wk in ("none", "list"):
            yield (size, hop, n, "scale", False, True, wk, "fake", "absent", "absent", style, "ola-hop-size")


def run_stft(case):
  synth = len(case) > 11 and case[11] == "ola-hop-size"
  fkind = case[11][5:] if len(case) > 11 and str(case[11]).startswith("func:") else "def"
  case = case[:11]
  size, hop, n, fname, trans, ba, wk, olak, ola_wnd, ola_norm, style = case
  x = syms("x", n)
  log = []
  def f_id(blk):
    log.append(("func", [lift(v) for v in blk]))
    return blk
  def f_rev(blk):
    log.append(("func", [lift(v) for v in blk]))
    return list(reversed(list(blk)))
  def f_scale(blk):
    log.append(("func", [lift(v) for v in blk]))
    return [3 * v for v in blk]
  func = {"identity": f_id, "reverse": f_rev, "scale": f_scale}[fname]
  if fkind == "partial":
    import functools
    func = functools.partial(lambda tag, blk, inner=func: inner(blk), "tag")      # no __name__
  elif fkind == "instance":
    class Processor(object):
      def __init__(self, inner): self.inner = inner
      def __call__(self, blk): return self.inner(blk)
    func = Processor(func)
  def before(blk):
    log.append(("before", len(list(blk))))
    return [v + 0 for v in blk]
  def after(blk):
    log.append(("after", None))
    return [v for v in blk]
  def T(blk, sz):
    log.append(("transform", sz))
    out = [2 * v for v in blk]
    return out + [Q(99)] if trans == "pad" else out     # "pad": one extra bin, like a one-sided spectrum
  def Ti(blk, sz):
    log.append(("inverse", sz))
    blk = list(blk)
    return [v / 2 for v in (blk[:sz] if trans == "pad" else blk)]
  fake_calls = []
  def fake_ola(blks, **kw):
    fake_calls.append(dict(kw))
    return Stream(["fake"] + [list(b) for b in blks])
  wvals = [Q(i + 1, 2) for i in range(size)]
  wcalls = []
  wnd = make_window(wk, wvals, wcalls)
  kws = {"size": size, "transform": T if trans else None, "inverse_transform": Ti if trans else None,
         "before": before if ba else None, "after": after if ba else None,
         "ola": {"list": overlap_add.list, "none": None, "fake": fake_ola}[olak]}
  if hop is not None: kws["hop"] = hop
  if wk != "none": kws["wnd"] = wnd
  owvals = [Q(2) if i % 2 else Q(1, 2) for i in range(size)]
  if ola_wnd == "None": kws["ola_wnd"] = None
  elif ola_wnd == "list": kws["ola_wnd"] = list(owvals)
  if ola_norm != "absent": kws["ola_normalize"] = ola_norm
  extra_ola = {}
  if olak == "fake":
    extra_ola = {"alpha": 3, "lag": 1, "_x": 2, "ola": 5, "offset": 0}
    if synth:
      extra_ola.update({"hop": size + 3, "size": size + 1})
    for k, v in extra_ola.items():
      kws["ola_" + k] = v
  nt = True
  try:
    callkw = {}
    if style == "direct":
      proc = stft(func, **kws)
    elif style == "decorator":
      dec = stft(**kws)
      proc = dec(func)
    elif style == "partial-chain":
      a = {k: v for k, v in kws.items() if k in ("size", "hop", "wnd")}
      b = {k: v for k, v in kws.items() if k not in a}
      proc = stft(**b)(**a)(func)
    elif style == "partial-reassign":
      # every option is first given a wrong value and then reassigned by a later partial step
      wrong = dict(kws, size=size + 2, hop=1, wnd=[Q(9)] * (size + 2), ola_wnd=[Q(7)] * (size + 2),
                   ola_normalize=not kws.get("ola_normalize", True), transform=None, inverse_transform=None)
      if kws["ola"] is None:
        wrong.pop("ola_wnd"); wrong.pop("ola_normalize")
      right = dict(kws)
      right.setdefault("hop", size)      # explicit hop=None is not an accepted spelling
      right.setdefault("wnd", None)
      if kws["ola"] is not None:
        right.setdefault("ola_wnd", None)
        right.setdefault("ola_normalize", True)
      proc = stft(**wrong)(**right)(func)
    elif style == "partial-sibling":
      # one configured partial is the parent of several processors: options given when deriving one child
      # (another size, hop, windows, stages) belong to that child only
      base = stft(**kws)
      other = dict(size=size + 2, hop=1, wnd=[Q(9)] * (size + 2), transform=None, inverse_transform=None,
                   before=None, after=None)
      if kws["ola"] is not None:
        other.update(ola_wnd=[Q(7)] * (size + 2), ola_normalize=not kws.get("ola_normalize", True))
      sibling = base(**other)                       # a derived partial
      sibling2 = base(lambda blk: blk, **other)     # a derived processor
      proc = base(func)
    elif style == "partial-separately":
      # size and hop replaced in two separate partial steps: the configuration in between (new size, old
      # hop > size) is not a configuration anybody runs - only the final one counts
      big = 2 * size + 1
      proc = stft(**dict(kws, size=big, hop=big))(size=size)(hop=(hop if hop is not None else size))(func)
    else:
      wrong = dict(kws, size=size + 3)
      wrong.pop("hop", None)
      callkw = {"size": size}
      if hop is not None: callkw["hop"] = hop
      # None is a value (no window, no stage): given at the call it replaces what was stored
      for name_ in ("wnd", "before", "after", "transform", "inverse_transform"):
        if kws.get(name_) is None:
          wrong[name_] = ([Q(9)] * (size + 3)) if name_ == "wnd" else (lambda blk, *a_: [Q(5)] * len(blk))
          callkw[name_] = None
      if kws.get("ola") is not None and kws.get("ola_wnd") is None and "ola_wnd" in kws:
        wrong["ola_wnd"] = [Q(7)] * size
        callkw["ola_wnd"] = None
      proc = stft(func, **wrong)
    res = proc(list(x), **callkw)
    if not isinstance(res, Stream):
      return bad("stft:type", "the STFT processor must return a Stream", "Stream", type(res).__name__)
    # snapshot every item as it is produced (block containers are reused by design)
    got = [list(v) if olak == "none" else v for v in res]
  except Exception as exc:
    return bad("stft:exception:" + type(exc).__name__, "STFT wrapper raised", None,
               {"exc": type(exc).__name__, "msg": str(exc)[:200]})
  # the processor is an ordinary function: a second call with the same signal gives the same result
  # (generator / Stream windows are consumed by the first call and excluded)
  if wk not in ("generator", "stream"):
    keep = (list(log), list(fake_calls), list(wcalls))
    try:
      res2 = proc(list(x), **callkw)
      got2 = [list(v) if olak == "none" else v for v in res2]
    except Exception as exc:
      return bad("stft:second-call:" + type(exc).__name__, "calling the same STFT processor a second time raised",
                 None, {"exc": type(exc).__name__, "msg": str(exc)[:200]})
    norm = lambda items: [[lift(v) for v in b] if isinstance(b, list) else (b if isinstance(b, str) else lift(b)) for b in items]
    if norm(got2) != norm(got):
      return bad("stft:second-call", "calling the same STFT processor twice on the same signal gives different results",
                 [str(v) for v in got[:4]], [str(v) for v in got2[:4]])
    log[:], fake_calls[:], wcalls[:] = keep
  # ---- reference
  h = size if hop is None else hop
  blks = ref_blocks(list(x), size, h, 0.0)
  stage_names = []
  exp_blocks = []
  exp_func_inputs = []
  for b in blks:
    data = [lift(v) for v in b]
    if wk != "none":
      data = [w * v for w, v in zip(wvals, data)]
    if ba: stage_names.append("before")
    if trans:
      stage_names.append("transform")
      data = [2 * v for v in data]
    stage_names.append("func")
    exp_func_inputs.append(list(data))
    if trans == "pad":
      data = data + [Sym.lift(Q(99))]
      exp_func_inputs[-1] = list(data)
    data = {"identity": data, "reverse": data[::-1], "scale": [3 * v for v in data]}[fname]
    if trans:
      stage_names.append("inverse")
      data = [v / 2 for v in data[:size]] if trans == "pad" else [v / 2 for v in data]
    if ba: stage_names.append("after")
    exp_blocks.append(data)
  if [l[0] for l in log] != stage_names:
    return bad("stft:stage-order", "stages must run as before, transform, func, inverse_transform, after per block",
               stage_names[:10], [l[0] for l in log][:10])
  fin = [l[1] for l in log if l[0] == "func"]
  if len(fin) != len(exp_func_inputs) or any(a != b for a, b in zip(fin, exp_func_inputs)):
    return bad("stft:window-before-func", "the user function must receive the block already multiplied "
               "by the analysis window (and transformed)", exp_func_inputs[:2], fin[:2])
  if any(l[1] != size for l in log if l[0] in ("transform", "inverse")):
    return bad("stft:transform-size", "transform stages must receive the block size", size,
               [l for l in log if l[0] in ("transform", "inverse")][:2])
  if wk == "callable" and wcalls != [size] and blks:
    return bad("stft:window-callable", "callable analysis window must be asked for the size", [size], wcalls)
  if olak == "none":
    gb = [[lift(v) for v in b] for b in got]
    if gb != exp_blocks:
      return bad("stft:blocks", "with ola=None the result must be the processed blocks", exp_blocks[:2], gb[:2])
    return R(None, nt, ("noola", fname))
  ola_kw = {"size": size, "hop": hop}
  if ola_wnd == "None": ola_kw["wnd"] = None
  elif ola_wnd == "list": ola_kw["wnd"] = list(owvals)
  if ola_norm != "absent": ola_kw["normalize"] = ola_norm
  if style == "partial-reassign":
    if hop is None:
      ola_kw["hop"] = size
    ola_kw.setdefault("wnd", None)
    ola_kw.setdefault("normalize", True)
  if style == "partial-separately" and hop is None:
    ola_kw["hop"] = size
  ola_kw.update(extra_ola)          # an ola_-prefixed option wins over the blocking size / hop
  if olak == "fake":
    if fake_calls != [ola_kw]:
      return bad("stft:ola-params", "only size, hop and ola_-prefixed options (prefix stripped) may reach the overlap-add",
                 ola_kw, fake_calls)
    gb = [[lift(v) for v in b] for b in got[1:]]
    if got[:1] != ["fake"] or gb != exp_blocks:
      return bad("stft:ola-input", "the overlap-add must receive the processed blocks", exp_blocks[:2], gb[:2])
    return R(None, nt, ("fake", fname))
  exp = ref_ola(exp_blocks, size, h, ola_kw.get("wnd"), ola_kw.get("normalize", True))
  if not same_forms(got, exp):
    return bad("stft:value", "STFT output is not the overlap-add of the processed windowed blocks",
               exp[:6], got[:6])
  return R(None, nt, ("ola", fname, trans, ba))


# ------------------------------------------------------------ calling routes
from ..routes import routes_agree


def route_table():
  T = OrderedDict()
  c = lambda v: (lambda: v)
  blks = lambda: [[Q(1), Q(2), Q(3), Q(4)], [Q(-1), Q(0), Q(5), Q(2)], [Q(7), Q(7), Q(1), Q(0)]]
  T["overlap_add.list"] = (overlap_add.list, [("blk_sig", blks), ("size", c(4)), ("hop", c(2)),
                                              ("wnd", lambda: [Q(1), Q(2), Q(2), Q(1)]), ("normalize", c(False))],
                           lambda g: [str(Q(v).f) for v in g])
  return T


def gen_routes(run):
  for name in route_table():
    yield (name,)


def run_routes(case):
  f, spec, canon = route_table()[case[0]]
  return routes_agree(case[0], f, spec, canon)


# ------------------------------------------- the default overlap-add strategy
def gen_default(run):
  for order in ("default-then-build", "build-then-default", "build-call-default-call"):
    for style in ("direct", "decorator"):
      for size, hop in ((4, 2), (3, 3), (6, 2)):
        yield (order, style, size, hop)


def run_default(case):
  """overlap_add is a StrategyDict whose default a user may choose (here: the pure-Python list
  strategy, the only one usable without numpy).  An STFT processor that is not given ``ola`` uses the
  default in force when it is CALLED - whichever of building and choosing came first - and gives what
  ola=overlap_add.list gives."""
  order, style, size, hop = case
  x = [Q(v) for v in (1, -2, 3, 5, 0, 7, -1, 4, 2, 2, -6)]
  mk = (lambda **kw: stft(lambda blk: blk, **kw)) if style == "direct" else (lambda **kw: stft(**kw)(lambda blk: blk))
  base = dict(size=size, hop=hop, transform=None, inverse_transform=None, before=None, after=None)
  want = [str(Q(v).f) for v in mk(ola=overlap_add.list, **base)(list(x))]
  saved = vars(overlap_add).get("default", None)
  try:
    if order == "default-then-build":
      overlap_add.default = overlap_add.list
      proc = mk(**base)
      got = [str(Q(v).f) for v in proc(list(x))]
    elif order == "build-then-default":
      proc = mk(**base)
      overlap_add.default = overlap_add.list
      got = [str(Q(v).f) for v in proc(list(x))]
    else:
      proc = mk(**base)
      overlap_add.default = overlap_add.list
      first = [str(Q(v).f) for v in proc(list(x))]
      overlap_add.default = (lambda blks, **kw: Stream(["other strategy"]))
      second = list(proc(list(x)))
      got = first if second == ["other strategy"] else ["second call did not use the new default"] + [str(v) for v in second[:3]]
  except Exception as exc:
    return bad("stft:default-ola:" + type(exc).__name__, "an STFT processor without ola= must use the overlap-add "
               "default chosen by the user (%s)" % order, want[:4], str(exc)[:200], True)
  finally:
    if saved is None:
      try: del overlap_add.default
      except Exception: pass
    else:
      overlap_add.default = saved
  if got != want:
    return bad("stft:default-ola", "an STFT processor without ola= must give what the default strategy in force at "
               "the call gives (%s)" % order, want[:6], got[:6], True)
  return R(None, True, (order, style))


def gen_types(run):
  from ..routes import struct_params
  try:
    T = route_table()
  except Exception:
    T = {}
  for name, ent in T.items():
    if struct_params(ent[1]):
      yield (name,)


def run_types(case):
  from ..routes import struct_params, types_agree
  ent = route_table()[case[0]]
  return types_agree(case[0], ent[0], ent[1], ent[2], struct_params(ent[1]))


# ------------------------------------- the library's own window strategies as callables
def gen_libwnd(run):
  from audiolazy import wsymm
  names = ["hann", "hamming", "bartlett", "triangular", "blackman", "rect"]
  for dn in ("window", "wsymm"):
    for name in names:
      for size, hop in ((4, 2), (5, 3), (8, 2), (6, 6)):
        for norm in (False, True):
          yield (dn, name, size, hop, norm)


def run_libwnd(case):
  """wnd=window.X / wnd=wsymm.X (a callable, given as such) is the window that callable returns for the
  block size: the result equals the one obtained with that list - periodic or symmetric as asked."""
  from audiolazy import wsymm
  dn, name, size, hop, norm = case
  sd = window if dn == "window" else wsymm
  blks = [[Q(3 * k + i + 1) if (k + i) % 3 else Q(-2) for i in range(size)] for k in range(4)]
  try:
    with_callable = list(overlap_add.list([list(b) for b in blks], size=size, hop=hop, wnd=sd[name], normalize=norm))
    with_list = list(overlap_add.list([list(b) for b in blks], size=size, hop=hop, wnd=list(sd[name](size)), normalize=norm))
    via_dict = list(overlap_add.list([list(b) for b in blks], hop=hop, wnd=sd[name], normalize=norm))
  except Exception as exc:
    return bad("ola:library-window:exception:" + type(exc).__name__, "overlap_add with wnd=%s.%s raised" % (dn, name), None, str(exc)[:200], True)
  f = lambda vs: [float(Q(v).f) if hasattr(Q(v), "f") else float(v) for v in vs]
  a, b, c = f(with_callable), f(with_list), f(via_dict)
  if len(a) != len(b) or any(abs(x - y) > 1e-12 * (1 + abs(y)) for x, y in zip(a, b)) or a != c:
    return bad("ola:library-window", "wnd=%s.%s must be the window that callable gives for the block size" % (dn, name),
               b[:6], a[:6], True)
  return R(None, True, (dn, name))


KINDS = OrderedDict([
  ("ola", Kind(gen_ola, run_ola, chunk=300, rule="overlap_add.list configurations; non-trivial: overlap or window")),
  ("reconstruction", Kind(gen_recon, run_recon, chunk=50, rule="blocks -> overlap-add; non-trivial: signal longer than a block")),
  ("stft", Kind(gen_stft, run_stft, chunk=400, rule="STFT wrapper configurations and calling styles")),
  ("call-routes", Kind(gen_routes, run_routes, chunk=1,
                       rule="each function with every documented parameter set: all positional / all keyword / every split must agree")),
  ("ola-default", Kind(gen_default, run_default, chunk=1,
                       rule="order of choosing overlap_add.default and building / calling the processor x style x (size, hop)")),
  ("param-types", Kind(gen_types, run_types, chunk=1,
                       rule="structural integer parameters given as integral float / Fraction / bool: same result wherever the type is accepted")),
  ("library-windows", Kind(gen_libwnd, run_libwnd, chunk=8, rule="window / wsymm strategies given as callables vs the lists they return")),
])
