"""
C07 - Poly is an exact commutative ring with evaluation, composition and calculus.

E1 over exact rationals: all pairs / triples of a pool of Laurent polynomials
(cancellation cases included by construction) are combined with the real Poly
operators and compared with a dict-of-Fractions reference; evaluation under all
three schemes, composition, diff / integrate, equality / hash and the Lagrange
interpolators are enumerated completely within the stated bounds.
"""
from collections import OrderedDict
from fractions import Fraction as F
import itertools
from ..runner import Kind, R, bad
from ..ref import ratfun as rr

from audiolazy import Poly, x, lagrange

PROPERTY = "C07"
LEVEL = "exploration"
RULE = ("all ordered pairs and all triples (sub-pool) of the polynomial pool; every polynomial "
        "alone (powers, calculus, evaluation points x schemes, construction routes); all point "
        "sets of 1..4 distinct abscissae x ordinates for Lagrange; non-trivial: an operand has "
        ">= 2 terms or a negative power")
ASSUMPTIONS = [
  "coefficients, evaluation points and interpolation points are Fractions (exact arithmetic)",
  "evaluation at 0 only for polynomials without negative powers; Laurent composition only with "
  "a monomial inner polynomial; the x**-1 term is excluded from integration (its ValueError is checked)",
]

POINTS = [F(0), F(1), F(-1), F(2), F(1, 2), F(-3, 2)]
SCHEMES = [True, False, "auto"]


def pool(tier):
  """quick: support -3..3, ~130 polynomials; thorough: ~330."""
  powers = list(range(-3, 4))
  out = [[]]
  c1 = ["1", "-1", "2", "1/2", "-3/2", "-2"]
  c2 = [("1", "-1"), ("2", "1/2"), ("-3/2", "1"), ("-1", "-1"), ("1/2", "2")]
  c3 = [("1", "-1", "2"), ("1/2", "-3/2", "1")]
  pw2 = list(itertools.combinations(range(-2, 3), 2)) + [(-3, 0), (-3, 3), (0, 3), (1, 3)]
  pw3 = list(itertools.combinations(range(-2, 3), 3)) + [(-3, 0, 3), (0, 1, 3), (-3, -1, 1)]
  if tier != "quick":
    c2 += [(a, b) for a in c1 for b in c1 if (a, b) not in c2][:10]
    c3 += [("-1", "2", "-3/2"), ("2", "2", "-1"), ("1", "1", "1")]
    pw2 += [(-3, -2), (2, 3), (-3, 1)]
  for p in powers:
    for c in c1:
      out.append([[p, c]])
  for ps in pw2:
    for cs in c2:
      out.append([[p, c] for p, c in zip(ps, cs)])
  for ps in pw3:
    for cs in c3:
      out.append([[p, c] for p, c in zip(ps, cs)])
  # three and four terms whose square / product has partial sums that cancel exactly on the way
  out += [[[0, "1/2"], [1, "1"], [2, "-1"]], [[0, "1"], [1, "2"], [2, "-2"]], [[-1, "1"], [0, "2"], [1, "-2"]],
          [[0, "1"], [1, "1"], [2, "-1/2"], [3, "1"]], [[0, "2"], [1, "-2"], [2, "1"], [3, "-1"]]]
  # no constant and no linear term (lowest power >= 2): composition schemes that factor the lowest power out
  out += [[[2, "1"], [3, "2"]], [[2, "-1"], [4, "1/2"]], [[3, "1"], [5, "-1"]], [[2, "2"], [3, "-1"], [5, "1"]]]
  # pairs that differ only where CPython's hash does not (hash(-1) == hash(-2)): in a coefficient, in a power
  out += [[[0, "-1"], [2, "1"]], [[0, "-2"], [2, "1"]], [[-1, "1"], [0, "1"]], [[-2, "1"], [0, "1"]],
          [[-1, "-1"], [1, "2"]], [[-2, "-1"], [1, "2"]], [[-1, "-2"], [1, "2"]]]
  return out


def bounds(run):
  return {"pool": len(pool(run.tier)), "triple_subpool": run.pick(16, 30),
          "points": [str(p) for p in POINTS], "schemes": ["True", "False", "auto"],
          "exponents": "0..%d" % run.pick(3, 5),
          "lagrange_points": "1..4 distinct abscissae of {-1,0,1/2,1,2} x ordinates {0,1,-2,1/2}"}


def ref(spec):
  return rr.P({p: F(c) for p, c in spec})


def mk(spec, route="dict"):
  d = OrderedDict((p, F(c)) for p, c in spec)
  if route == "dict":
    return Poly(dict(d))
  if route == "expr":
    acc = Poly()
    for p, c in d.items():
      acc = acc + c * x ** p
    return acc
  if route == "list":
    n = max(d) if d else -1
    return Poly([d.get(i, 0) for i in range(n + 1)])
  raise ValueError(route)


def terms(p):
  return {k: F(v) for k, v in p.terms()}


def nt(*specs):
  return any(len(s) >= 2 or any(p < 0 for p, c in s) for s in specs)


def stored_zero(p):
  return [k for k, v in p._data.items() if v == 0]


def check_poly(p, expected, key, what, nontriv):
  """p must hold exactly the expected terms, and no zero coefficient."""
  if not isinstance(p, Poly):
    return bad(key + ":type", "result is not a Poly", "Poly", type(p).__name__, nontriv)
  z = stored_zero(p)
  if z:
    return bad(key + ":stored-zero", "a zero coefficient is stored after the operation",
               expected, {"zero_powers": z, "terms": dict(p.terms())}, nontriv)
  if terms(p) != expected:
    return bad(key, what, expected, dict(p.terms()), nontriv)
  return None


def has_neg(spec):
  return any(p < 0 for p, c in spec)


def eval_points(*specs):
  return [v for v in POINTS if v != 0 or not any(has_neg(s) for s in specs)]


# ------------------------------------------------------------------ pairs
def gen_pairs(run):
  P_ = pool(run.tier)
  for i in run.rot(range(len(P_))):
    for j in range(len(P_)):
      yield (P_[i], P_[j])


def run_pair(case):
  ps, qs = case
  n = nt(ps, qs)
  rp, rq = ref(ps), ref(qs)
  p, q = mk(ps), mk(qs)
  for name, got, exp in (("add", p + q, rr.padd(rp, rq)), ("add-commuted", q + p, rr.padd(rp, rq)),
                         ("sub", p - q, rr.psub(rp, rq)), ("mul", p * q, rr.pmul(rp, rq)),
                         ("mul-commuted", q * p, rr.pmul(rp, rq))):
    v = check_poly(got, exp, "ring:" + name, "operator result differs from exact polynomial arithmetic", n)
    if v: return v
  # the operand objects used above must be unchanged by all the operations applied to them
  if terms(p) != rp or terms(q) != rq or stored_zero(p) or stored_zero(q):
    return bad("ring:operand-mutated", "an operator modified one of its operands",
               {"p": rp, "q": rq}, {"p": dict(p.terms()), "q": dict(q.terms())}, n)
  if not ((p + q) == (q + p)) or not ((p * q) == (q * p)) or (p + q) != (q + p) or (p * q) != (q * p) \
     or hash(p + q) != hash(q + p) or hash(p * q) != hash(q * p):
    return bad("ring:commutative:eq", "commuted results must be ==, not != and hash equally", None, None, n)
  # the same operators on operands that were hashed first (hashing may cache inside the object)
  hp_, hq_ = mk(ps), mk(qs)
  hash(hp_), hash(hq_)
  if (hp_ == hq_) != (rp == rq) or (hp_ != hq_) == (rp == rq) or (hq_ == hp_) != (rp == rq):
    return bad("eq:value-after-hash", "== / != of two polynomials that were both hashed before must still be equality "
               "of terms", {"equal": rp == rq}, {"==": hp_ == hq_, "!=": hp_ != hq_, "same hash": hash(hp_) == hash(hq_)}, n)
  if len({hp_, hq_}) != (1 if rp == rq else 2) or (hq_ in {hp_: 1}) != (rp == rq):
    return bad("eq:value-after-hash", "a set / dict of two polynomials must hold them as equal exactly when their terms are",
               {"equal": rp == rq}, {"distinct in set": len({hp_, hq_})}, n)
  for name, got, exp in (("add", hp_ + hq_, rr.padd(rp, rq)), ("sub", hp_ - hq_, rr.psub(rp, rq)),
                         ("mul", hp_ * hq_, rr.pmul(rp, rq))):
    fresh = Poly(dict(exp))
    if not (got == fresh) or hash(got) != hash(fresh):
      return bad("eq:hash-after-hash", "%s of already hashed operands must equal, and hash like, a freshly built "
                 "equal polynomial" % name, {"terms": exp, "hash": hash(fresh)},
                 {"terms": dict(got.terms()), "hash": hash(got)}, n)
  # equality / hash
  e, ne = (p == q), (p != q)
  same = rp == rq
  if e != same or ne == e:
    return bad("eq:value", "== / != disagree with equality of terms", {"equal": same}, {"==": e, "!=": ne}, n)
  if e and hash(mk(ps)) != hash(mk(qs, "expr")):
    return bad("eq:hash", "equal polynomials built by different routes must hash equally", None, None, n)
  # evaluation is a ring homomorphism, whatever the scheme
  for v in eval_points(ps, qs):
    ev = {}
    for sch in SCHEMES:
      try:
        pv, qv = mk(ps)(v, horner=sch), mk(qs)(v, horner=sch)
        sv, mv = (mk(ps) + mk(qs))(v, horner=sch), (mk(ps) * mk(qs))(v, horner=sch)
      except Exception as exc:
        return bad("eval:exception:" + type(exc).__name__, "evaluation raised",
                   {"v": v, "scheme": str(sch)}, str(exc)[:200], n)
      if pv != rr.peval(rp, v) or qv != rr.peval(rq, v):
        return bad("eval:value", "p(v) differs from the exact value",
                   {"v": v, "scheme": str(sch), "p(v)": rr.peval(rp, v), "q(v)": rr.peval(rq, v)},
                   {"p(v)": pv, "q(v)": qv}, n)
      # p(v), q(v) were just shown to equal the exact values; use those (the empty
      # polynomial evaluates to the float 0.0, and float + Fraction would round)
      es, em = rr.peval(rp, v) + rr.peval(rq, v), rr.peval(rp, v) * rr.peval(rq, v)
      if sv != es or mv != em:
        return bad("eval:homomorphism", "(p+q)(v) / (p*q)(v) differ from p(v)+q(v) / p(v)*q(v)",
                   {"v": v, "scheme": str(sch), "sum": es, "prod": em}, {"sum": sv, "prod": mv}, n)
  # calculus: linearity and the product rule
  v = check_poly((mk(ps) + mk(qs)).diff(), rr.padd(rr.pdiff(rp), rr.pdiff(rq)), "diff:linear",
                 "diff(p+q) != diff(p)+diff(q)", n)
  if v: return v
  lhs = (mk(ps) * mk(qs)).diff()
  rhs = mk(ps).diff() * mk(qs) + mk(ps) * mk(qs).diff()
  v = check_poly(lhs, rr.pdiff(rr.pmul(rp, rq)), "diff:product", "diff(p*q) wrong", n)
  if v: return v
  if terms(lhs) != terms(rhs):
    return bad("diff:product-rule", "diff(p*q) != diff(p)*q + p*diff(q)", dict(lhs.terms()), dict(rhs.terms()), n)
  # composition p(q): polynomial p with any q, Laurent p with monomial q
  if (not has_neg(ps)) or len(qs) == 1:
    if not (has_neg(ps) and not qs):
      try:
        comp = mk(ps)(mk(qs))
      except Exception as exc:
        return bad("compose:exception:" + type(exc).__name__, "p(q) raised", None, str(exc)[:200], n)
      if not isinstance(comp, Poly):
        return bad("compose:type", "p(q) is not a Poly", "Poly", type(comp).__name__, n)
      if stored_zero(comp):
        return bad("compose:stored-zero", "p(q) stores a zero coefficient", None, dict(comp.terms()), n)
      for v_ in eval_points(ps, qs):
        qv = rr.peval(rq, v_)
        if qv == 0 and has_neg(ps):
          continue
        if comp(v_) != rr.peval(rp, qv):
          return bad("compose:value", "p(q)(v) != p(q(v))", {"v": v_, "value": rr.peval(rp, qv)},
                     {"value": comp(v_), "p(q)": dict(comp.terms())}, n)
  return R(None, n, (len(ps), len(qs), same))


# ----------------------------------------------------------------- single
def gen_single(run):
  for s in run.rot(pool(run.tier)):
    yield (s, run.pick(3, 5))


def run_single(case):
  ps, maxexp = case
  n = nt(ps)
  rp = ref(ps)
  p = mk(ps)
  v = check_poly(p - p, {}, "ring:p-p", "p-p must be the empty polynomial", n)
  if v: return v
  if len(p - p) != 0:
    return bad("ring:p-p:len", "p-p must have no terms", 0, len(p - p), n)
  v = check_poly(-p, rr.pneg(rp), "ring:neg", "unary minus wrong", n) or \
      check_poly(+p, rp, "ring:pos", "unary plus wrong", n) or \
      check_poly(p * 0, {}, "ring:times0", "p*0 must be empty", n) or \
      check_poly(0 * p, {}, "ring:0times", "0*p must be empty", n) or \
      check_poly(p + 0, rp, "ring:plus0", "p+0 must be p", n) or \
      check_poly(F(3, 2) * p, rr.pscale(rp, F(3, 2)), "ring:scalar", "scalar multiple wrong", n) or \
      check_poly(p / F(3, 2), rr.pscale(rp, F(2, 3)), "ring:scalar-div", "scalar division wrong", n) or \
      check_poly(2 - p, rr.psub({0: F(2)}, rp), "ring:rsub", "reflected subtraction wrong", n)
  if v: return v
  # the very same object on both sides of an operator
  for name, got, exp in (("p*p", p * p, rr.pmul(rp, rp)), ("p+p", p + p, rr.padd(rp, rp)), ("p-p", p - p, {}),
                         ("p*p*p", p * p * p, rr.pmul(rr.pmul(rp, rp), rp)), ("p*(p*p)", p * (p * p), rr.pmul(rp, rr.pmul(rp, rp))),
                         ("p(p)" if not has_neg(ps) else "p*p", (p(p) if not has_neg(ps) else p * p), None)):
    if exp is None:
      continue
    v = check_poly(got, exp, "ring:same-object:" + name, "%s with one object on both sides differs from the product of two equal polynomials" % name, n)
    if v: return v
  acc = {0: F(1)}
  big = 9 if len(ps) <= 3 and all(abs(pw) <= 2 for pw, _ in ps) else maxexp      # exponents up to 9 where the result stays small
  for e in list(range(0, maxexp + 1)) + [x_ for x_ in range(maxexp + 1, big + 1)]:
    v = check_poly(mk(ps) ** e, acc, "ring:pow", "p**n is not the n-fold product", n)
    if v:
      v.viol["expected"] = {"n": e, "terms": v.viol["expected"]}
      return v
    acc = rr.pmul(acc, rp)
  # powers given as integral floats (2.0 is the power 2), an explicit zero coefficient among them
  fk = {float(k): c for k, c in rp.items()}
  fk[7.0] = F(0)
  fk[-3.0 if -3 not in rp else -4.0] = 0
  qf = Poly(dict(fk))
  if stored_zero(qf) or len(qf) != len(rp) or not (qf == p) or (qf != p) or hash(qf) != hash(mk(ps)) or terms(qf) != rp:
    return bad("eq:float-powers", "integral float powers are the integer powers, and a zero coefficient given with "
               "such a power is not stored", rp, dict(qf.terms()), n)
  # routes
  for route in ("expr", "list"):
    if route == "list" and (has_neg(ps)):
      continue
    q = mk(ps, route)
    if not (q == p) or (q != p) or hash(q) != hash(mk(ps)):
      return bad("eq:routes", "the same polynomial built through %s must be ==, not != and hash equally" % route,
                 rp, dict(q.terms()), n)
  # the zero value takes part in == and hash: equal zeros of different types are the same zero
  zs = [None, 0, 0.0, F(0), False]
  built = [Poly({k: F(c) for k, c in ps}) if zv is None else Poly({k: F(c) for k, c in ps}, zero=zv) for zv in zs]
  for a, b in itertools.combinations(range(len(zs)), 2):
    pa, pb = built[a], built[b]
    if (pa == pb) and (hash(pa) != hash(pb) or (pa != pb)):
      return bad("eq:hash-zero", "polynomials that compare equal (zero values equal as numbers) must hash equally "
                 "and not be !=", {"zeros": [repr(zs[a]), repr(zs[b])]}, [hash(pa), hash(pb), pa != pb], n)
    if (pa == pb) == (pa != pb):
      return bad("eq:exclusive", "exactly one of == and != must hold", None, [pa == pb, pa != pb], n)
  # numbers are the constant polynomials: p == s exactly when p - s is the empty polynomial
  c0 = rp.get(0, F(0))
  for sv in (0, F(0), 0.0, False, 1, F(1, 2), c0, -c0, c0 + 1, float(c0)):
    want = rr.psub(rp, {0: F(sv)} if sv != 0 else {}) == {}
    got = [p == sv, sv == p, not (p != sv), not (sv != p), p == Poly(sv), Poly(sv) == p]
    if any(g is not want for g in got):
      return bad("eq:scalar", "p == number must hold exactly when p is that constant polynomial (both operand orders, "
                 "== and != consistent, same as comparing with Poly(number))", {"number": repr(sv), "equal": want}, got, n)
  # a history: the operand was hashed BEFORE the operation (hashing freezes a Poly and may cache);
  # results are new objects and hash like any equal polynomial
  ph = mk(ps)
  hp = hash(ph)
  for name, res, refd in (("-p", -ph, rr.pneg(rp)), ("+p", +ph, rp), ("p*1", ph * 1, rp), ("p+0", ph + 0, rp),
                          ("p-0", ph - 0, rp), ("p**1", ph ** 1, rp), ("p.copy()", ph.copy(), rp),
                          ("p.diff()", ph.diff(), rr.pdiff(rp)), ("p*p", ph * ph, rr.pmul(rp, rp))):
    fresh = Poly({k: c for k, c in refd.items()})
    if not (res == fresh) or hash(res) != hash(fresh) or (res in {fresh: 1}) is not True:
      return bad("eq:hash-after-hash", "%s of an already hashed p must equal, and hash like, a freshly built equal "
                 "polynomial" % name, {"terms": refd, "hash": hash(fresh)}, {"terms": dict(res.terms()), "hash": hash(res)}, n)
  if hash(ph) != hp or terms(ph) != rp:
    return bad("ring:operand-mutated", "an operator modified its (hashed) operand", rp, dict(ph.terms()), n)
  if terms(p) != rp:
    return bad("ring:operand-mutated", "an operator modified its operand", rp, dict(p.terms()), n)
  # order / values
  if not has_neg(ps):
    exp_order = max(rp) if rp else 0
    if p.order != exp_order:
      return bad("order", "order wrong", exp_order, p.order, n)
    vals = list(p.values())
    expv = [rp.get(i, 0) for i in range(exp_order + 1)] if rp else []
    if vals != expv:
      return bad("values", "values() is not the dense coefficient list", expv, vals, n)
  # calculus
  v = check_poly(p.diff(), rr.pdiff(rp), "diff", "derivative wrong", n) or \
      check_poly(p.diff(2), rr.pdiff(rr.pdiff(rp)), "diff:n", "second derivative wrong", n)
  if v: return v
  if -1 in rp:
    try:
      p.integrate()
      return bad("integrate:x^-1", "integrating the x**-1 term must raise ValueError", "ValueError", "returned", n)
    except ValueError:
      pass
  else:
    ip = p.integrate()
    v = check_poly(ip, {k + 1: c / (k + 1) for k, c in rp.items()}, "integrate", "antiderivative wrong", n) or \
        check_poly(ip.diff(), rp, "integrate:diff", "diff does not undo integrate", n)
    if v: return v
    if not (ip.diff() == p):
      return bad("integrate:diff:eq", "diff(integrate(p)) == p is False", None, None, n)
  # evaluation
  for pt in eval_points(ps):
    vals = [mk(ps)(pt, horner=s) for s in SCHEMES] + [mk(ps)(pt)]
    if any(val != rr.peval(rp, pt) for val in vals):
      return bad("eval:value", "p(v) differs between schemes or from the exact value",
                 {"v": pt, "value": rr.peval(rp, pt)}, vals, n)
  return R(None, n, (len(ps), has_neg(ps)))


# ---------------------------------------------------------------- triples
def gen_triples(run):
  P_ = pool(run.tier)
  k = run.pick(16, 30)
  step = max(len(P_) // k, 1)
  sub = [P_[(i * step + i) % len(P_)] for i in range(k)]
  for t in itertools.product(run.rot(sub), sub, sub):
    yield list(t)


def run_triple(case):
  a, b, c = case
  n = nt(a, b, c)
  ra, rb, rc = ref(a), ref(b), ref(c)
  A, B, C = lambda: mk(a), lambda: mk(b), lambda: mk(c)
  laws = [("add-assoc", (A() + B()) + C(), A() + (B() + C()), rr.padd(rr.padd(ra, rb), rc)),
          ("mul-assoc", (A() * B()) * C(), A() * (B() * C()), rr.pmul(rr.pmul(ra, rb), rc)),
          ("distributive", A() * (B() + C()), A() * B() + A() * C(), rr.pmul(ra, rr.padd(rb, rc))),
          ("distributive-right", (A() + B()) * C(), A() * C() + B() * C(), rr.pmul(rr.padd(ra, rb), rc)),
          ("sub-distributive", A() * (B() - C()), A() * B() - A() * C(), rr.pmul(ra, rr.psub(rb, rc)))]
  for name, l, r, exp in laws:
    v = check_poly(l, exp, "ring:" + name, "ring law: left side differs from exact arithmetic", n) or \
        check_poly(r, exp, "ring:" + name, "ring law: right side differs from exact arithmetic", n)
    if v: return v
    if not (l == r) or (l != r) or hash(l) != hash(r):
      return bad("ring:%s:eq" % name, "both sides must be ==, not != and hash equally", None, None, n)
  return R(None, n, (len(a), len(b), len(c)))


# --------------------------------------------------------------- lagrange
XS = ["-1", "0", "1/2", "1", "2"]
YS = ["0", "1", "-2", "1/2"]


def gen_lagrange(run):
  for n in (1, 2, 3, 4):
    sel = itertools.permutations(XS, n) if n <= 3 else itertools.combinations(XS, n)
    for xs in sel:
      for ys in itertools.product(YS, repeat=n):
        yield (list(xs), list(ys))


def run_lagrange(case):
  xs, ys = case
  pts = [(F(a), F(b)) for a, b in zip(xs, ys)]
  n = len(pts)
  for strat in ("func", "poly"):
    try:
      f = lagrange[strat](list(pts))
      if strat == "poly":
        if not isinstance(f, Poly):
          return bad("lagrange:poly:type", "lagrange.poly must return a Poly", "Poly", type(f).__name__)
        if not f.is_polynomial() or (len(f) and f.order > n - 1):
          return bad("lagrange:degree", "interpolating polynomial must have degree <= n-1", n - 1, str(f))
        if stored_zero(f):
          return bad("lagrange:stored-zero", "zero coefficient stored", None, dict(f.terms()))
      for a, b in pts:
        if f(a) != b:
          return bad("lagrange:%s:through" % strat, "interpolator does not pass through its points",
                     {"x": a, "y": b}, f(a))
    except Exception as exc:
      return bad("lagrange:%s:exception:%s" % (strat, type(exc).__name__), "Lagrange interpolator raised",
                 None, str(exc)[:200])
  fp, ff = lagrange.poly(list(pts)), lagrange.func(list(pts))
  for a in (F(3), F(-1, 2), F(5, 3)):
    if fp(a) != ff(a):
      return bad("lagrange:agree", "func and poly strategies disagree away from the points", ff(a), fp(a))
  return R(None, n >= 2, n)


# ------------------------------------------------------------ calling routes
from ..routes import routes_agree


def route_table():
  T = OrderedDict()
  c = lambda v: (lambda: v)
  T["Poly"] = (Poly, [("data", lambda: {0: F(1), 2: F(3)}), ("zero", c(F(0)))], lambda p: (sorted((k, str(v)) for k, v in p.terms()), repr(p.zero)))
  p = Poly({0: F(1), 1: F(-2), 3: F(1, 2)})
  for sch in SCHEMES:
    T["Poly.__call__(%r)" % (sch,)] = (p, [("value", c(F(3, 2))), ("horner", (lambda sch=sch: sch))], str)
  for strat in ("func", "poly"):
    T["lagrange." + strat] = (lagrange[strat], [("pairs", lambda: [(F(0), F(1)), (F(1), F(3)), (F(2), F(-1))])],
                              (lambda f: str(f(F(1, 2)))) , 0)
  return T


def gen_routes(run):
  for name in route_table():
    yield (name,)


def run_routes(case):
  ent = route_table()[case[0]]
  return routes_agree(case[0], ent[0], ent[1], ent[2])


def gen_types(run):
  from ..routes import struct_params
  try:
    T = route_table()
  except Exception:
    T = {}
  for name, ent in T.items():
    if struct_params(ent[1]):
      yield (name,)


def run_types(case):
  from ..routes import struct_params, types_agree
  ent = route_table()[case[0]]
  return types_agree(case[0], ent[0], ent[1], ent[2], struct_params(ent[1]))


KINDS = OrderedDict([
  ("pairs", Kind(gen_pairs, run_pair, chunk=40, rule="ordered pairs: ring ops, eq/hash, evaluation homomorphism x schemes, calculus, composition")),
  ("single", Kind(gen_single, run_single, chunk=4, rule="each polynomial: p-p, scalars, powers, routes, order/values, diff/integrate, evaluation")),
  ("triples", Kind(gen_triples, run_triple, chunk=40, rule="triples of the sub-pool: associativity, distributivity")),
  ("lagrange", Kind(gen_lagrange, run_lagrange, chunk=100, rule="point sets with distinct abscissae; non-trivial: >= 2 points")),
  ("call-routes", Kind(gen_routes, run_routes, chunk=1,
                       rule="each function with every documented parameter set: all positional / all keyword / every split must agree")),
  ("param-types", Kind(gen_types, run_types, chunk=1,
                       rule="structural integer parameters given as integral float / Fraction / bool: same result wherever the type is accepted")),
])
