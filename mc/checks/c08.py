"""
C08 - Blocks are the hop-spaced windows of the input, padded only at the end.

Bounded-exhaustive enumeration (E1): every (length, size, hop, pad value, item
kind, calling route) within the bound is run through the real ``blocks`` /
``Stream.blocks`` / ``zero_pad`` and compared with the statement written as a
list comprehension.
"""
from collections import OrderedDict, deque
from ..runner import Kind, R, bad

import audiolazy
from audiolazy import blocks, zero_pad, Stream

PROPERTY = "C08"
LEVEL = "exploration"
RULE = ("all (length, size, hop, pad, item kind, route) tuples within the bound, "
        "each enumerated once; a blocks case is non-trivial when it produces at "
        "least one block, a zero_pad case when left+right+len > 0")
ASSUMPTIONS = [
  "item values are irrelevant to blocking (the code never inspects them); "
  "three item alphabets (ints, mixed heterogeneous objects, strings) are used",
  "sizes/hops beyond the bound behave like those inside it (small-scope hypothesis)",
]

class Sentinel(object):
  """A pad value with identity only (no useful ==): padding must be the object itself."""
  def __repr__(self):
    return "<sentinel>"


PADS = {"0.": 0., "None": None, "str": "pad", "tuple": ("p", 1), "sentinel": Sentinel(), "list": ["mutable", "pad"]}
ROUTES = ["func-list", "func-gen", "func-stream", "method", "func-hopdefault",
          "method-hopdefault", "func-positional", "func-getitem-seq", "func-deque-late", "func-list-late"]


class OldSeq(object):
  """A sequence of the old protocol: __len__ and __getitem__ only (as ctypes arrays, many C extension
  buffers and user classes are) - iterable by ``for``, without __iter__."""
  def __init__(self, data):
    self._d = list(data)
  def __repr__(self):
    return "OldSeq(%r)" % (self._d,)
  def __len__(self):
    return len(self._d)
  def __getitem__(self, i):
    if not isinstance(i, int):
      raise TypeError("index")
    return self._d[i]


def bounds(run):
  return {"max_len": run.pick(12, 26), "max_size": run.pick(6, 10),
          "hop": "1..size+3", "pads": list(PADS), "routes": ROUTES,
          "zero_pad": {"len": run.pick(4, 8), "left": run.pick(3, 5),
                       "right": run.pick(3, 5)}}


def items(kind, n):
  if kind == "int":
    return list(range(n))
  if kind == "str":
    return ["s%d" % i for i in range(n)]
  out = []
  for i in range(n):
    out.append([i, "s%d" % i, (i, i), None, float(i) + .5, frozenset([i])][i % 6])
  return out


def ref_blocks(L, size, hop, pad):
  n = len(L)
  if hop == float("inf"):
    # an endless hop: only the first window exists (complete, or padded when it holds any real item)
    if n >= size:
      return [L[:size]]
    return [L + [pad] * (size - n)] if n > 0 else []
  out = []
  k = 0
  while k * hop + size <= n:
    out.append(L[k * hop:k * hop + size])
    k += 1
  s = k * hop
  r = max(n - s, 0)
  if r > max(size - hop, 0):
    out.append(L[s:n] + [pad] * (size - r))
  return out


def gen_blocks(run):
  maxlen, maxsize = run.pick(12, 26), run.pick(6, 10)
  for size in run.rot(range(1, maxsize + 1)):
    for hop in range(1, size + 4):
      for n in range(0, maxlen + 1):
        for pad in PADS:
          for ik in ("int", "mixed", "str"):
            for route in ROUTES:
              if route.endswith("hopdefault") and hop != size:
                continue
              yield (route, n, size, hop, pad, ik)
  # an endless hop (audiolazy.inf): just the first window
  for size in (1, 2, 3, 5):
    for n in range(0, 9):
      for pad in ("None", "tuple"):
        for route in ("func-list", "func-gen", "method", "func-positional"):
          yield (route, n, size, "inf", pad, "mixed")
  # long inputs, large sizes and hops (beyond any internal batch or buffer size)
  for n in (100, 257, 1000, 1024, 1025):
    for size in (16, 64, 100, 128):
      for hop in (1, 17, 64, 100, 128, 130):
        for route in ("func-gen", "method", "func-list"):
          yield (route, n, size, hop, "tuple", "int")
  # sizes and hops on both sides of the interpreter's small-integer cache (-5..256): counters compared
  # by identity instead of equality only go wrong beyond it (seed C08-W); hop below, at and above size
  for size in (255, 256, 257, 258, 300, 512):
    for hop in (size - 1, size, size + 1, size + 100, 2 * size):
      for n in (size - 1, size, 2 * size + 1, 3 * hop + 7):
        for route in ("func-gen", "method", "func-list"):
          yield (route, n, size, hop, "tuple", "int")


class _Raised(object):
  def __init__(self, exc):
    self.name, self.msg = type(exc).__name__, str(exc)[:200]


def _guard(it):
  try:
    for b in it:
      yield b
  except Exception as exc:
    yield _Raised(exc)


def run_blocks(case):
  route, n, size, hop, padk, ik = case
  if hop == "inf":
    hop = float("inf")
  pad = PADS[padk]
  L = items(ik, n)
  exp = ref_blocks(L, size, hop, pad)
  # a decoy call with the same size but another hop / pad / input first: state kept between
  # calls (a cached block, a remembered pad value) would leak into the real call
  for d in blocks(items("str", (n + 3) % 7), size, (max(1, hop - 1) if hop > 1 else hop + 1) if hop != float("inf") else size, "decoy"):
    d.append("touched")
  if route == "func-list":
    it = blocks(list(L), size=size, hop=hop, padval=pad)
  elif route == "func-gen":
    it = blocks((x for x in L), size=size, hop=hop, padval=pad)
  elif route == "func-stream":
    it = blocks(Stream(L), size=size, hop=hop, padval=pad)
  elif route == "method":
    it = Stream(L).blocks(size=size, hop=hop, padval=pad)
  elif route == "func-hopdefault":
    it = blocks(L, size=size, padval=pad)
  elif route == "method-hopdefault":
    it = Stream(iter(L)).blocks(size=size, padval=pad)
  elif route == "func-positional":
    it = blocks(L, size, hop, pad)
  elif route == "func-getitem-seq":
    it = blocks(OldSeq(L), size=size, hop=hop, padval=pad)
  elif route in ("func-deque-late", "func-list-late"):
    # "at the moment it is produced": the call itself looks at nothing - a buffer filled between the call
    # and the first block (a FIFO between producer and consumer) is blocked with what it holds by then
    buf = deque(L[:n // 2]) if route == "func-deque-late" else list(L[:n // 2])
    it = blocks(buf, size=size, hop=hop, padval=pad)
    buf.extend(L[n // 2:])
  else:
    raise ValueError(route)
  if route.startswith("method") and not isinstance(it, Stream):
    return bad("method-type", "Stream.blocks must return a Stream",
               "Stream", type(it).__name__)
  got = []
  counted = None
  if route == "func-gen" and hop != float("inf"):
    # "at the moment it is produced": complete block k is handed over as soon as its last item,
    # k*hop+size-1, has been read - not one item later (a live source may depend on the block)
    from ..sources import CountingSource
    counted = CountingSource(list(L), name="blocks-source")
    it = blocks(counted, size=size, hop=hop, padval=pad)
  it = _guard(it)
  for b in it:
    if isinstance(b, _Raised):
      return bad("blocks:exception:" + b.name, "producing the blocks raised", exp, b.msg, len(exp) > 0, (len(exp), False))
    got.append(list(b))          # snapshot: the deque is reused by design
    if counted is not None and not counted.ended:
      k = len(got) - 1
      due = k * hop + size
      if counted.pulls > due and k * hop + size <= n:
        return bad("blocks:late", "complete block %d was produced only after %d items had been read (its last "
                   "item is number %d)" % (k, counted.pulls, due), due, counted.pulls, True, (len(exp), False))
    if len(got) > len(exp) + 3:
      break
  nontriv = len(exp) > 0
  outcome = (len(exp), bool(exp) and len(exp) > 0 and
             (len(L) < (len(exp) - 1) * hop + size))
  if got == exp and padk in ("sentinel", "list", "tuple") and exp:
    npad = sum(1 for v in exp[-1] if v is pad)
    if sum(1 for v in got[-1] if v is pad) != npad:
      return bad("blocks:pad-identity", "the final block is padded with the pad value itself (the same object), "
                 "not with copies of it", "%d items that are the pad object" % npad,
                 "%d" % sum(1 for v in got[-1] if v is pad), nontriv, outcome)
  if got != exp:
    key = "blocks:" + ("count" if len(got) != len(exp) else "content")
    return bad(key, "blocks differ from the hop-spaced windows of the input",
               exp, got, nontriv, outcome)
  return R(None, nontriv, outcome)


def gen_zero_pad(run):
  ml, mlr = run.pick(4, 8), run.pick(3, 5)
  for n in range(ml + 1):
    for left in range(mlr + 1):
      for right in range(mlr + 1):
        for zk in PADS:
          for ik in ("int", "mixed"):
            for route in ("kw", "pos", "default-zero", "gen", "getitem-seq", "deque-late"):
              yield (route, n, left, right, zk, ik)
  for which in ("left", "right", "both"):
    for hk in HUGE:
      for n in (0, 3):
        yield ("huge", which, hk, n)


HUGE = {"2**63": 2 ** 63, "10**30": 10 ** 30, "2**63-1": 2 ** 63 - 1}


def run_zero_pad_huge(case):
  """Pad counts beyond the machine word (any int is a legal count): the stream is lazy, so its
  first items are observable - left pads first, then the sequence, then the right pads."""
  which, hk, n = case
  import itertools
  big = HUGE[hk]
  L = items("mixed", n)
  left, right = (big, 2) if which == "left" else ((2, big) if which == "right" else (big, big))
  try:
    got = list(itertools.islice(zero_pad(list(L), left=left, right=right, zero="z"), n + 7))
  except Exception as exc:
    return bad("zero_pad:exception:" + type(exc).__name__, "zero_pad with a pad count beyond 2**63 raised",
               {"left": str(left), "right": str(right)}, str(exc)[:160], True)
  exp = (["z"] * (n + 7)) if which != "right" else (["z"] * 2 + L + ["z"] * 5)
  if got != exp:
    return bad("zero_pad", "zero_pad is not left pads + sequence + right pads (huge pad count)", exp, got, True)
  return R(None, True, (which, hk))


def run_zero_pad(case):
  if case[0] == "huge":
    return run_zero_pad_huge(case[1:])
  route, n, left, right, zk, ik = case
  zero = PADS[zk]
  L = items(ik, n)
  list(zero_pad(["decoy"], right, left, zero="other"))
  if route == "kw":
    it = zero_pad(L, left=left, right=right, zero=zero)
  elif route == "pos":
    it = zero_pad(L, left, right, zero)
  elif route == "gen":
    it = zero_pad((x for x in L), left, right, zero=zero)
  elif route == "getitem-seq":
    it = zero_pad(OldSeq(L), left, right, zero=zero)
  elif route == "deque-late":
    buf = deque(L[:n // 2])
    it = zero_pad(buf, left=left, right=right, zero=zero)
    buf.extend(L[n // 2:])
  else:
    zero = 0.
    it = zero_pad(L, left=left, right=right)
  if route == "gen" and n >= 2:
    # a padded view that is abandoned half way (closed / dropped) must leave the caller's generator usable
    src = (x for x in L)
    view = zero_pad(src, left, right, zero=zero)
    head = [next(view) for _ in range(left + 1)]
    view.close()
    del view
    rest = list(src)
    if head != [zero] * left + L[:1] or rest != L[1:]:
      return bad("zero_pad:abandoned", "abandoning a zero_pad view after k items must leave the source generator with "
                 "its remaining items", {"head": [zero] * left + L[:1], "rest": L[1:]}, {"head": head, "rest": rest}, True,
                 (left > 0, right > 0, n > 0))
  try:
    got = list(it)
  except Exception as exc:
    return bad("zero_pad:exception:" + type(exc).__name__, "zero_pad raised", None, str(exc)[:200], True, (left > 0, right > 0, n > 0))
  exp = [zero] * left + L + [zero] * right
  ok = len(got) == len(exp) and all(
      type(a) is type(b) and a == b for a, b in zip(got, exp))
  nontriv = (left + right + n) > 0
  if not ok:
    return bad("zero_pad", "zero_pad is not left pads + sequence + right pads",
               exp, got, nontriv, (left > 0, right > 0, n > 0))
  return R(None, nontriv, (left > 0, right > 0, n > 0))


KINDS = OrderedDict([
  ("blocks", Kind(gen_blocks, run_blocks, chunk=2000,
                  rule="(route, len, size, hop, pad, items); non-trivial: >=1 block")),
  ("zero_pad", Kind(gen_zero_pad, run_zero_pad, chunk=2000,
                    rule="(route, len, left, right, zero, items); non-trivial: non-empty output")),
])
