"""
C11 - PARCOR step-down inverts Levinson and decides stability correctly.

E1 over exact rationals: (i) every reflection vector over the alphabet is
stepped up to a predictor (directly and through levinson_durbin of the
matching autocorrelation) and the real ``parcor`` must give the coefficients
back, last first; (ii) every denominator built from a multiset of chosen roots
(inside, on and outside the unit circle, real and complex-conjugate pairs) times
every gain is given to ``parcor_stable``, whose answer is known by construction.
"""
from collections import OrderedDict
from fractions import Fraction as F
import itertools
from ..runner import Kind, R, bad
from ..exact import Q
from ..ref import lpcref

from audiolazy import parcor, parcor_stable, levinson_durbin, ParCorError, ZFilter, z

PROPERTY = "C11"
LEVEL = "exploration"
RULE = ("all reflection vectors over the alphabet with non-zero last entry (length <= bound) x "
        "gains; all multisets of root factors with total degree <= 4 x gains x numerators. "
        "Non-trivial: order >= 2")
ASSUMPTIONS = [
  "coefficients are exact rationals (the absorbing class Q and plain fractions.Fraction); ints/floats "
  "are not used because float step-down cannot decide exact criticality; roots are chosen, so stability is known by construction "
  "(no root finder involved)",
  "parcor is applied to filters with a constant denominator (its documented domain)",
]

KALPHA = ["1/2", "-1/2", "1/3", "-1/3", "2", "-2", "-3/2", "0", "1", "-1"]
GAINS = ["1", "2", "-1/2", "3"]
# factor -> (coefficients in z^-1, all roots strictly inside?)
FACTORS = OrderedDict([
  ("r0", ([1], True)),                      # root at the origin: no factor in z^-1
  ("r1/2", ([1, F(-1, 2)], True)), ("r-1/2", ([1, F(1, 2)], True)), ("r3/4", ([1, F(-3, 4)], True)),
  ("r1", ([1, -1], False)), ("r-1", ([1, 1], False)), ("r2", ([1, -2], False)), ("r-2", ([1, 2], False)),
  ("c1/2+-1/2j", ([1, -1, F(1, 2)], True)),        # |root|^2 = 1/2
  ("c3/5+-4/5j", ([1, F(-6, 5), 1], False)),       # on the unit circle
  ("c1+-1j", ([1, -2, 2], False)),                 # |root|^2 = 2
  ("c-2/5+-1/5j", ([1, F(4, 5), F(1, 5)], True)),
  # real roots a hair inside / outside the circle
  ("r1-1e-15", ([1, -(1 - F(1, 10 ** 15))], True)), ("r-1+1e-15", ([1, 1 - F(1, 10 ** 15)], True)),
  ("r1+1e-15", ([1, -(1 + F(1, 10 ** 15))], False)),
])


def bounds(run):
  return {"reflection_alphabet": KALPHA, "reflection_len": run.pick(3, 4), "gains": GAINS,
          "root_factors": list(FACTORS), "max_degree": 4}


def fr(v):
  return Q(v).f


def gen_reflection(run):
  pmax = run.pick(3, 4)
  for p in range(1, pmax + 1):
    for ks in itertools.product(run.rot(KALPHA), repeat=p):
      if F(ks[-1]) == 0:
        continue
      for g in (GAINS if p <= 3 else GAINS[:2]):
        yield (list(ks), g)
  # coefficients a hair away from the circle (exact rationals: not equal to 1, so no error is due)
  near = ["999999999999999/1000000000000000", "-999999999999999/1000000000000000",
          "1000000000000001/1000000000000000", "-1000000000000000001/1000000000000000000"]
  for k in near:
    for g in GAINS[:2]:
      yield ([k], g)
      yield (["1/2", k], g)
      yield ([k, "1/3"], g)
      yield (["-1/3", k, "1/2"], g)
  # high orders (a handful, not exhaustive): 8, 12, 20 and 33 coefficients
  base = ["1/2", "-1/3", "1/3", "-1/2", "1/3", "0", "-1/3", "1/2", "-1/2", "1/3", "0", "1/2"]
  for p in (8, 12, 20, 33):
    for shift in (0, 1, 5):
      ks = [base[(i + shift) % len(base)] for i in range(p)]
      if F(ks[-1]) == 0:
        ks[-1] = "1/3"
      for g in GAINS[:2]:
        yield (ks, g)
    yield (["1/2"] * (p - 1) + ["2"], "1")          # the last one outside the circle
    yield (["1/3"] * (p // 2) + ["-1"] + ["1/2"] * (p - p // 2 - 1), "1")   # critical in the middle


def run_reflection(case):
  ks, g = case
  ks = [F(k) for k in ks]
  g = F(g)
  p = len(ks)
  nt = p >= 2
  a = lpcref.step_up(ks)
  exp = ks[::-1]
  # ParCorError exactly when some |k_m| = 1 is met during step-down (first met = highest m)
  hits = [m for m in range(p, 0, -1) if abs(ks[m - 1]) == 1]
  for route in ("numerator", "gain-in-denominator", "z-expression"):
    if route == "numerator":
      if g != 1:
        continue
      f = ZFilter([Q(v) for v in a])
    elif route == "gain-in-denominator":
      # a / (1/g) : constant denominator different from 1 must be divided out
      f = ZFilter([Q(v) / Q(g) for v in a], [Q(1) / Q(g)])
    else:
      f = sum((Q(v) * z ** -i for i, v in enumerate(a)), 0 * z)
    got = []
    err = None
    before = ({k: fr(v) for k, v in f.numpoly.terms()}, {k: fr(v) for k, v in f.denpoly.terms()})
    try:
      for k in parcor(f):
        got.append(fr(k))
    except ParCorError:
      err = "ParCorError"
    except Exception as exc:
      return bad("parcor:exception:" + type(exc).__name__, "parcor raised", exp, str(exc)[:200], nt)
    after = ({k: fr(v) for k, v in f.numpoly.terms()}, {k: fr(v) for k, v in f.denpoly.terms()})
    if after != before:
      return bad("parcor:mutates-argument", "parcor must leave the filter it analyses unchanged "
                 "(the filter is rebuilt / reused afterwards)", before[0], after[0], nt)
    again, err2 = [], None
    try:
      for k in parcor(f):
        again.append(fr(k))
    except ParCorError:
      err2 = "ParCorError"
    if (again, err2) != (got, err):
      return bad("parcor:second-call", "a second parcor of the same filter object must give the same coefficients",
                 {"k": got, "then": err}, {"k": again, "then": err2}, nt)
    if hits:
      # coefficients down to (and including) the first |k| = 1 are produced, then ParCorError
      m = hits[0]
      want = ks[m - 1:][::-1]
      if m > 1:
        if err != "ParCorError" or got != want:
          return bad("parcor:unit-coefficient", "step-down must yield the coefficients down to the first "
                     "|k| = 1 and then raise ParCorError", {"k": want, "then": "ParCorError"},
                     {"k": got, "then": err}, nt)
      else:
        # |k_1| = 1 is the last coefficient: nothing is left to divide
        if got != exp:
          return bad("parcor:value", "parcor does not return the reflection coefficients, last first", exp, got, nt)
      continue
    if err is not None:
      return bad("parcor:spurious-error", "ParCorError raised although no |k_m| equals 1", exp, err, nt)
    if got != exp:
      return bad("parcor:value", "parcor does not return the reflection coefficients, last first", exp, got, nt)
    if lpcref.step_up(got[::-1]) != a:
      return bad("parcor:rebuild", "stepping the coefficients up again does not rebuild the filter", a, got, nt)
  # through levinson_durbin whenever the recursion does not divide by zero (no |k| = 1): with some
  # |k| > 1 the "autocorrelation" is indefinite and the error may be negative - still the same algebra
  if all(abs(k) != 1 for k in ks[:-1]) and abs(ks[-1]) == 1:
    # a LAST coefficient of exactly +-1 (a perfectly predictable signal at this order): the recursion never
    # divides by zero - the final error is zero - so levinson_durbin returns the filter, with error 0
    r = lpcref.acorr_from_reflection(ks, F(3, 2))
    try:
      filt = levinson_durbin([Q(v) for v in r])
    except Exception as exc:
      return bad("levinson:last-unit", "levinson_durbin raised although only the LAST reflection coefficient has "
                 "magnitude 1 (no division by zero occurs; the error is 0)", {"k": ks, "error": 0}, type(exc).__name__, nt)
    acoefs = [fr(v) for v in filt.numerator]
    if acoefs != lpcref.step_up(list(ks)) or fr(filt.error) != 0:
      return bad("levinson:last-unit", "filter / error wrong for a last reflection coefficient of magnitude 1",
                 {"a": lpcref.step_up(list(ks)), "error": 0}, {"a": acoefs, "error": filt.error}, nt)
  if all(abs(k) != 1 for k in ks):
    r = lpcref.acorr_from_reflection(ks, F(3, 2))
    filt = levinson_durbin([Q(v) for v in r])
    got = [fr(k) for k in parcor(filt)]
    if got != exp:
      return bad("parcor:levinson", "parcor(levinson_durbin(r)) is not the recursion's reflection "
                 "coefficients, last first", exp, got, nt)
    e = F(3, 2)
    for k in ks:
      e *= 1 - k * k
    if fr(filt.error) != e:
      return bad("parcor:error", "error != r0 * prod(1 - k_m^2)", e, filt.error, nt)
    # the lags as a tuple (any sequence), and the caller's list left as it was - also after a call with an
    # order beyond the lags given (which zero-extends them)
    rl = [Q(v) for v in r]
    try:
      ft = levinson_durbin(tuple(rl))
      if [fr(k) for k in parcor(ft)] != exp or fr(ft.error) != e:
        return bad("parcor:levinson-tuple", "levinson_durbin of the lags given as a tuple differs from the list's", exp,
                   [fr(k) for k in parcor(ft)], nt)
    except Exception as exc:
      return bad("parcor:levinson-tuple", "levinson_durbin raised for lags given as a tuple", exp, repr(exc)[:160], nt)
    for order in (len(rl) - 1, len(rl), len(rl) + 2):
      try:
        levinson_durbin(rl, order)
      except (ParCorError, ZeroDivisionError):
        pass
      if [fr(v) for v in rl] != [F(v) for v in r]:
        return bad("levinson:argument-changed", "levinson_durbin(r, %d) changed the caller's list of lags" % order,
                   [str(F(v)) for v in r], [str(fr(v)) for v in rl], nt)
  # stability from reflection coefficients (Schur-Cohn): stable iff all |k| < 1
  den = ZFilter([Q(1)], [Q(v) * Q(g) for v in a])
  st = parcor_stable(den)
  want = all(abs(k) < 1 for k in ks)
  if st is not want and st != want:
    return bad("stable:reflection", "parcor_stable disagrees with 'all |k_m| < 1' for a denominator "
               "with leading coefficient %s" % g, want, st, nt)
  return R(None, nt, (p, bool(hits), want))


def gen_roots(run):
  names = list(FACTORS)
  for n in range(1, 5):
    for combo in itertools.combinations_with_replacement(names, n):
      deg = sum(len(FACTORS[c][0]) - 1 for c in combo)
      if deg == 0 or deg > 4:
        continue
      for g in GAINS:
        for num in ("1", "fir"):
          yield (list(combo), g, num, "Q")
        # the same denominators with plain fractions.Fraction coefficients (no absorbing
        # number class): float decay inside the library would lose exactness here
        if not any("1e-15" in c for c in combo):     # (plain Fractions meet floats inside the library: a 1e-30 margin is not decidable there)
          yield (list(combo), g, "1", "Fraction")


def run_roots(case):
  combo, g, num, typ = case
  poly = [F(1)]
  inside = True
  for c in combo:
    coefs, ins = FACTORS[c]
    poly = lpcref.polymul(poly, coefs)
    inside = inside and ins
  g = F(g)
  wrap = Q if typ == "Q" else F
  den = [wrap(v * g) for v in poly]
  numer = [wrap(1)] if num == "1" else [Q(2), Q(-1), Q(1, 3)]
  filt = ZFilter(numer, den)
  try:
    st = parcor_stable(filt)
  except Exception as exc:
    return bad("stable:exception:" + type(exc).__name__, "parcor_stable raised", inside, str(exc)[:200])
  if not isinstance(st, bool) or st != inside:
    return bad("stable:roots", "parcor_stable must be True exactly when every pole is strictly inside the "
               "unit circle, whatever the leading denominator coefficient",
               {"stable": inside, "poles": combo, "gain": g}, st)
  return R(None, len(poly) > 2, (inside, g != 1, typ))


# ---------------------------------------------------- plain int / float coefficients
def gen_plain(run):
  names = [n for n in FACTORS if n not in ("r0", "r1", "r-1", "c3/5+-4/5j")]
  for n in range(1, 4):
    for combo in itertools.combinations_with_replacement(names, n):
      deg = sum(len(FACTORS[c][0]) - 1 for c in combo)
      if deg > 3:
        continue
      yield (list(combo),)


def gen_deep(run):
  for n in (300, 1200):
    for c, stable in (("-1/2", True), ("1/2", True), ("-2", False), ("1", False)):
      yield (n, c, stable)


def run_deep(case):
  """A comb-like denominator 1 + c z^-N of order in the hundreds / above a thousand: the step-down
  runs through every order (all the inner reflection coefficients are zero)."""
  n, c, stable = case
  den = [Q(1)] + [Q(0)] * (n - 1) + [Q(c)]
  try:
    st = parcor_stable(ZFilter([Q(1)], den))
    ks = [fr(k) for k in parcor(ZFilter(list(den), [Q(1)]))] if stable else None
  except Exception as exc:
    return bad("stable:deep:" + type(exc).__name__, "order-%d step-down raised" % n, stable, str(exc)[:160], True)
  if st is not stable:
    return bad("stable:deep", "parcor_stable wrong for 1 + (%s) z^-%d" % (c, n), stable, st, True)
  if ks is not None and ks != [F(c)] + [F(0)] * (n - 1):
    return bad("parcor:deep", "reflection coefficients of 1 + c z^-N are (c, 0, ..., 0), last first", None, ks[:4], True)
  return R(None, True, (n, stable))


def run_plain(case):
  """Denominators with plain int / float coefficients and every gain of a grid (ints 1..128, k/10):
  the verdict must not depend on the leading coefficient, nor may it raise.  Only pole sets whose
  exact step-down stays at least 1/50 away from |k| = 1 are used, so that float rounding inside the
  library cannot legitimately change a verdict."""
  combo = case[0]
  poly = [F(1)]
  inside = True
  for c in combo:
    coefs, ins = FACTORS[c]
    poly = lpcref.polymul(poly, coefs)
    inside = inside and ins
  try:
    ks = lpcref.step_down(poly)
  except lpcref.ZeroError:
    return R(None, False, "critical-excluded")
  if any(abs(abs(k) - 1) < F(1, 50) for k in ks):
    return R(None, False, "near-critical-excluded")
  gains = [g for k in range(1, 129) for g in (k, -k)] + [k / 10. for k in range(1, 101)] + [-k / 10. for k in range(1, 101, 7)]
  n = 0
  for g in gains:
    den = [float(v) * g for v in poly]
    if isinstance(g, int) and all(F(v).denominator == 1 for v in poly):
      den = [int(v) * g for v in poly]
    variants = [den]
    if g in (1, 2, -3, 0.5, -0.7, 10.0):
      # the same real coefficients typed complex (what multiplying conjugate-pair sections in complex arithmetic gives)
      variants.append([complex(v, 0.0) for v in den])
    for numer, den_ in [(nm, dn) for dn in variants for nm in ([1], [2., -1.])]:
      n += 1
      try:
        st = parcor_stable(ZFilter(list(numer), list(den_)))
      except Exception as exc:
        return bad("stable:exception:" + type(exc).__name__, "parcor_stable raised for plain int/float coefficients",
                   {"stable": inside, "poles": combo, "gain": g}, str(exc)[:200], True)
      if not isinstance(st, bool) or st != inside:
        return bad("stable:roots", "parcor_stable must be True exactly when every pole is strictly inside the "
                   "unit circle, whatever the leading denominator coefficient (plain int/float coefficients)",
                   {"stable": inside, "poles": combo, "gain": g}, st, True)
  return R(None, True, (inside, len(poly)), n)


KINDS = OrderedDict([
  ("reflection", Kind(gen_reflection, run_reflection, chunk=20,
                      rule="reflection vectors x gains x construction routes; non-trivial: order >= 2")),
  ("roots", Kind(gen_roots, run_roots, chunk=40,
                 rule="multisets of root factors (degree <= 4) x gains x numerators; non-trivial: degree >= 2")),
  ("deep", Kind(gen_deep, run_deep, chunk=1, timeout=600, rule="comb-like denominators of order 300 and 1200")),
  ("plain-gains", Kind(gen_plain, run_plain, chunk=2,
                       rule="multisets of non-critical root factors (degree <= 3) x 469 int/float gains x 2 numerators")),
])
