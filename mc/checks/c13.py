"""
C13 - Designed filters meet their documented gain, cut-off and pole contracts.

E1 on explicit parameter grids: every strategy and alias of lowpass / highpass /
resonator / comb / gammatone (iterated from the strategy dictionaries) is
designed for every grid value of its parameters; the float coefficients it
returns are then evaluated in exact rational complex arithmetic, so the gain
claims are checked on the filter actually returned with tolerances scaled by
the conditioning of the evaluation and of the design formula (derived, not
tuned).  Stream-valued parameters must give, sample by sample, the coefficients
of the constant designs.
"""
from collections import OrderedDict
from fractions import Fraction as F
import itertools, math, cmath
from ..runner import Kind, R, bad
from ..exact import Q
from .c12 import C, peval

from audiolazy import (lowpass, highpass, resonator, comb, gammatone, Stream, ZFilter, CascadeFilter, inf, thub)

PROPERTY = "C13"
LEVEL = "exploration"
RULE = ("every (strategy or alias) x cut-off / centre-frequency grid in [1e-3, pi-1e-3] (log-spaced towards "
        "both ends) x bandwidth grid in [1e-3, 1]; comb delays x alphas / taus; stream-valued parameter "
        "lists; non-trivial: all (every case designs a filter and evaluates it)")
ASSUMPTIONS = [
  "grid-exhaustive over the stated parameter grids, nothing is claimed between grid points",
  "gains are evaluated exactly from the returned float coefficients; the tolerance is "
  "64u * (sum|b|/|B(z0)| + sum|a|/|A(z0)|) per section plus the conditioning of the design formula "
  "(1/min(c, pi-c)^2 for the pole designs, additionally 1/(c-pi/2)^2 for the z designs)",
  "resonator peak claims are vacuous (counted as trivial) where the analytic peak does not exist (|cos psi| > 1)",
]

U = 2.0 ** -53
pi = math.pi


def fgrid(n):
  """n points in [1e-3, pi-1e-3], log-spaced near both ends."""
  half = n // 2
  lo = [1e-3 * (pi / 2 / 1e-3) ** (k / (half - 1)) for k in range(half)]
  hi = [pi - v for v in lo[::-1]]
  return lo + hi


def bgrid(n):
  return [1e-3 * (1 / 1e-3) ** (k / (n - 1)) for k in range(n)]


def bounds(run):
  return {"cutoff_grid": run.pick(256, 4096), "bandwidth_grid": run.pick(16, 64),
          "resonator_freq_grid": run.pick(96, 512),
          "strategies": {"lowpass": [list(k) for k in lowpass.keys()], "highpass": [list(k) for k in highpass.keys()],
                         "resonator": [list(k) for k in resonator.keys()], "comb": [list(k) for k in comb.keys()],
                         "gammatone": [list(k) for k in gammatone.keys()]}}


def lti_coefs(filt):
  num = {k: F(v) for k, v in filt.numpoly.terms()}
  den = {k: F(v) for k, v in filt.denpoly.terms()}
  return num, den


def evalpoly(p, w):
  z0 = C.of(cmath.exp(-1j * w))
  acc = C(0)
  for k, c in p.items():
    pw = C(1)
    for _ in range(k):
      pw = pw * z0
    acc = acc + C(c) * pw
  return acc


def gain_and_cond(filt, w):
  """|H(w)| of the returned coefficients (exact evaluation) and the conditioning of evaluating it in floats."""
  num, den = lti_coefs(filt)
  N, D = evalpoly(num, w), evalpoly(den, w)
  na, da = N.abs(), D.abs()
  cond = (float(sum(abs(c) for c in num.values())) / na if na else float("inf")) + \
         (float(sum(abs(c) for c in den.values())) / da if da else float("inf"))
  return (na / da if da else float("inf")), cond


def names_of(sd):
  out = []
  for names in sorted(sd.keys()):
    out.extend(names)
  return out


# --------------------------------------------------------- lowpass / highpass
def gen_lphp(run):
  n = run.pick(256, 4096)
  for which in ("lowpass", "highpass"):
    sd = lowpass if which == "lowpass" else highpass
    for name in run.rot(names_of(sd)) + ["__call__"]:
      for part in range(n // 64):
        yield (which, name, n, part)


def run_lphp(case):
  which, name, n, part = case
  sd = lowpass if which == "lowpass" else highpass
  design = sd if name == "__call__" else sd[name]
  base = {"lowpass": "pole", "highpass": "z"}[which] if name == "__call__" else name
  ref_w = 0.0 if which == "lowpass" else pi
  worst = 0.0
  for c in fgrid(n)[part * 64:(part + 1) * 64]:
    try:
      f = design(c)
    except Exception as exc:
      return bad("design:exception:" + type(exc).__name__, "%s.%s raised" % (which, name), c, str(exc)[:160])
    if not isinstance(f, ZFilter):
      return bad("design:type", "design must return a ZFilter", "ZFilter", type(f).__name__)
    num, den = lti_coefs(f)
    if sorted(den) not in ([0, 1], [0]) or max(num) > 1:
      return bad("design:shape", "one-pole design expected", None, str(f))
    pole = -den.get(1, F(0)) / den[0]
    if not (abs(pole) < 1):
      return bad("design:pole", "the pole must lie strictly inside the unit circle for cut-offs in (0, pi)",
                 {"cutoff": c}, float(pole))
    g, cond = gain_and_cond(f, ref_w)
    if abs(g - 1) > 64 * U * cond:
      return bad("design:unit-gain", "%s must have unit gain at %s" % (which, "DC" if which == "lowpass" else "Nyquist"),
                 {"cutoff": c, "gain": 1.0}, g)
    if base in ("pole", "z"):
      gc, cond = gain_and_cond(f, c)
      d = min(c, pi - c)
      design_cond = 1 / d ** 2 + (1 / (c - pi / 2) ** 2 if base == "z" and c != pi / 2 else 0) + 1
      tol = 64 * U * (cond + design_cond)
      err = abs(gc * gc - 0.5)
      worst = max(worst, err / tol)
      if err > tol:
        return bad("design:half-power", "%s.%s must have half power at the cut-off" % (which, base),
                   {"cutoff": c, "power": 0.5, "tolerance": tol}, gc * gc)
      # monotone magnitude on a frequency grid
      prev = None
      for w in [k * pi / 48 for k in range(49)]:
        gw, _ = gain_and_cond(f, w)
        if prev is not None:
          if (which == "lowpass" and gw > prev + 16 * U) or (which == "highpass" and gw < prev - 16 * U):
            return bad("design:monotone", "magnitude response must be monotone", {"cutoff": c, "w": w}, [prev, gw])
        prev = gw
  return R(None, True, (which, base), 64, {"designs": 64})


# ------------------------------------------------------------------ resonator
def gen_resonator(run):
  nf, nb = run.pick(96, 512), run.pick(16, 64)
  for name in run.rot(names_of(resonator)) + ["__call__"]:
    for bi in range(nb):
      yield (name, bi, nb, nf)


def run_resonator(case):
  name, bi, nb, nf = case
  design = resonator if name == "__call__" else resonator[name]
  base = "poles_exp" if name == "__call__" else name
  bw = bgrid(nb)[bi]
  vac = 0
  Rr = math.exp(-bw / 2)
  for f0 in fgrid(nf):
    try:
      filt = design(f0, bw)
    except Exception as exc:
      return bad("resonator:exception:" + type(exc).__name__, "resonator.%s raised" % name, [f0, bw], str(exc)[:160])
    num, den = lti_coefs(filt)
    if sorted(den) != [0, 1, 2] and sorted(den) != [0, 2]:
      return bad("resonator:shape", "two-pole denominator expected", None, str(filt))
    a2 = den[2] / den[0]
    e = math.exp(-bw)
    if abs(float(a2) - e) > 4 * U * e:
      return bad("resonator:radius", "pole radius must be exp(-bandwidth/2), i.e. a2 = exp(-bandwidth)",
                 {"freq": f0, "bandwidth": bw, "a2": e}, float(a2))
    # resonant frequency
    if base in ("poles_exp", "z_exp"):
      psi = f0
      # the design places the peak at freq only when the required denominator cosine exists
      cosd = math.cos(f0) * ((2 * Rr) / (1 + Rr ** 2) if base == "poles_exp" else (1 + Rr ** 2) / (2 * Rr))
      exists = abs(cosd) <= 1
    else:
      cp = math.cos(f0) * ((1 + Rr ** 2) / (2 * Rr) if base == "freq_poles_exp" else (2 * Rr) / (1 + Rr ** 2))
      exists = abs(cp) <= 1
      psi = math.acos(max(-1.0, min(1.0, cp)))
    if not exists:
      vac += 1
      if base not in ("poles_exp", "z_exp"):
        continue        # no interior peak: the claim is vacuous for the freq_* strategies
    g, cond = gain_and_cond(filt, psi)
    # conditioning of locating the peak: d|H|/dw = 0 there, so a tiny error in psi is second order
    tol = 64 * U * (cond + 1 / bw + 1 / min(f0, pi - f0) ** 2)
    if abs(g - 1) > tol:
      return bad("resonator:unit-gain", "resonator.%s must have unit gain at its resonant frequency" % base,
                 {"freq": f0, "bandwidth": bw, "resonant": psi, "gain": 1.0, "tolerance": tol}, g)
    # it is a maximum: neighbours are not higher (only where an interior peak exists)
    for dw in ((-1e-4, 1e-4) if exists else ()):
      if 0 < psi + dw < pi:
        gn, _ = gain_and_cond(filt, psi + dw)
        if gn > g + 64 * U * cond:
          return bad("resonator:peak", "the gain at the resonant frequency must be the maximum",
                     {"freq": f0, "bandwidth": bw}, [g, gn])
  return R(None, True, (base, vac > 0), nf, {"designs": nf, "vacuous_no_peak": vac})


# ----------------------------------------------------------------------- comb
def gen_comb(run):
  for name in names_of(comb) + ["__call__"]:
    for delay in list(range(1, run.pick(8, 12) + 1)) + [32, 64, 65, 130]:
      for par in ("-1/2", "1/2", "9/10", "1", "99999999/100000000", "-9999999999/10000000000", "1000001/1000000",
                  "tau1", "tau10", "tauinf", "tau4e7", "tau1e12", "tau-5", "tau-1/2", "tau-inf"):
        yield (name, delay, par)


def run_comb(case):
  name, delay, par = case
  design = comb if name == "__call__" else comb[name]
  kind = "fb" if name == "__call__" else [k[0] for k in comb.keys() if name in k][0]
  if (kind == "tau") != par.startswith("tau"):
    return R(None, False, "n/a")
  x = [Q(v) for v in (1, 0, 0, 2, -1, 0, 3, 0, 0, 0, 0, 0, 1, 0, 0, 0, 0, 0, 0, 0, 0, 0, 0, 0, 0, 0)]
  if delay > 12:
    x = x + [Q(0)] * (2 * delay) + [Q(1), Q(-2)] + [Q(0)] * delay
  if kind == "tau":
    tau = {"tau1": 1.0, "tau10": 10.0, "tauinf": inf, "tau4e7": 4e7, "tau1e12": 1e12,
           "tau-5": -5.0, "tau-1/2": -0.5, "tau-inf": -inf}[par]      # a negative time constant: alpha > 1, by the same formula
    filt = design(delay, tau)
    alpha_expected = math.exp(-delay / tau)
    den = {k: F(v) for k, v in filt.denpoly.terms()}
    alpha = -den.get(delay, F(0))
    # e ** x with the rounded constant e: relative error grows like |x| * u
    if abs(float(alpha) - alpha_expected) > (4 + 2 * abs(delay / tau)) * U * alpha_expected:
      return bad("comb:alpha", "comb.tau must use alpha = e**(-delay/tau)", alpha_expected, float(alpha))
  else:
    alpha = F(float(F(par)))          # the float actually handed to the design
    filt = design(delay, float(alpha)) if par != "1" else design(delay)
  got = [Q(v).f for v in filt(list(x), zero=Q(0))]
  y = []
  for n in range(len(x)):
    if kind == "ff":
      y.append(x[n].f + alpha * (x[n - delay].f if n - delay >= 0 else 0))
    else:
      y.append(x[n].f + alpha * (y[n - delay] if n - delay >= 0 else 0))
  if got != y:
    return bad("comb:" + kind, "comb does not realise y[n]=x[n]+alpha*%s[n-delay]" % ("x" if kind == "ff" else "y"),
               [float(v) for v in y[:8]], [float(v) for v in got[:8]])
  return R(None, True, kind)


# ------------------------------------------------------------------ gammatone
def stable2(den):
  """Both roots of den (in z) strictly inside the unit circle (Jury)."""
  a0 = den.get(0, F(0))
  a1, a2 = den.get(1, F(0)) / a0, den.get(2, F(0)) / a0
  return abs(a2) < 1 and abs(a1) < 1 + a2


def gen_gammatone(run):
  nf, nb = run.pick(48, 256), run.pick(8, 32)
  for name in names_of(gammatone) + ["__call__"]:
    for bi in range(nb):
      yield (name, bi, nb, nf)
  # the order of the sampled design (eta, default 4): every order is a cascade of stable sections with unit gain
  for eta in (1, 2, 3):
    for bi in range(0, nb, 2):
      yield ("sampled", bi, nb, max(12, nf // 4), eta)


def run_gammatone(case):
  name, bi, nb, nf = case[:4]
  design = gammatone if name == "__call__" else gammatone[name]
  if len(case) > 4:
    design = (lambda f_, b_, eta_=case[4]: gammatone.sampled(f_, b_, eta=eta_))
  bw = bgrid(nb)[bi]
  for f0 in fgrid(nf):
    try:
      cas = design(f0, bw)
    except Exception as exc:
      return bad("gammatone:exception:" + type(exc).__name__, "gammatone.%s raised" % name, [f0, bw], str(exc)[:160])
    if not isinstance(cas, CascadeFilter) or len(cas) < 1:
      return bad("gammatone:type", "gammatone must return a cascade of sections", "CascadeFilter", type(cas).__name__)
    gain, tol = 1.0, 0.0
    for sec in cas:
      num, den = lti_coefs(sec)
      if max(den) > 2 or not stable2(den):
        return bad("gammatone:stable", "every gammatone section must be stable",
                   {"freq": f0, "bandwidth": bw}, {k: float(v) for k, v in den.items()})
      g, cond = gain_and_cond(sec, f0)
      gain *= g
      tol += 64 * U * cond
    if abs(gain - 1) > tol * max(gain, 1):
      return bad("gammatone:unit-gain", "the gammatone cascade must have unit gain at the centre frequency",
                 {"freq": f0, "bandwidth": bw, "gain": 1.0, "tolerance": tol}, gain)
    # the response the returned object itself reports (the product of its sections' responses)
    try:
      lib = abs(cas.freq_response(f0))
    except Exception as exc:
      return bad("gammatone:freq_response:exception", "freq_response of the returned cascade raised", [f0, bw], repr(exc)[:160])
    if abs(lib - gain) > 4 * tol * max(gain, 1) + 1e-12:
      return bad("gammatone:freq_response", "the cascade's own freq_response at the centre frequency must be its sections' "
                 "gain (unit)", {"freq": f0, "bandwidth": bw, "gain": gain, "tolerance": 4 * tol}, lib)
  return R(None, True, name, nf, {"designs": nf})


# ---------------------------------------------------- stream-valued parameters
def coef_table(filt, n):
  """{('num'|'den', power): list of n coefficient values}"""
  out = {}
  for tag, poly in (("num", filt.numpoly), ("den", filt.denpoly)):
    for k, v in poly.terms():
      out[(tag, k)] = list(Stream(v).take(n)) if isinstance(v, Stream) else [v] * n
  return out


def gen_streams(run):
  for fam in ("lowpass", "highpass"):
    sd = lowpass if fam == "lowpass" else highpass
    for name in names_of(sd):
      for vi in range(3):
        for ck in CKINDS:
          yield (fam, name, vi, "both", ck)
  for name in names_of(resonator):
    for vi in range(3):
      for which in ("both", "freq", "bandwidth"):
        for ck in CKINDS:
          yield ("resonator", name, vi, which, ck)
  for vi in range(3):
    for which in ("both", "freq", "bandwidth"):
      for ck in CKINDS:
        yield ("gammatone", "klapuri", vi, which, ck)
  for name in names_of(comb) + ["__call__"]:
    for vi in range(3):
      for ck in CKINDS:
        yield ("comb", name, vi, "param", ck)


# a "stream-valued" parameter may be handed over as any iterable
CKINDS = ["stream", "list", "tuple", "iter", "generator", "hub1", "hub-shared"]


def as_kind(ck, vals):
  vals = list(vals)
  if ck == "hub1":
    return thub(Stream(vals), 1)         # a parameter that already is a hub with ONE use: the design takes exactly that use
  if ck == "hub-shared":
    h = thub(Stream(vals), 2)            # the caller keeps the other use: it must still be there afterwards
    _SHARED.append(h)
    return h
  return {"stream": lambda: Stream(vals), "list": lambda: vals, "tuple": lambda: tuple(vals),
          "iter": lambda: iter(vals), "generator": lambda: (v for v in vals)}[ck]()


_SHARED = []


PARAM_LISTS = [[0.3, 1.2, 2.9, 0.01, pi / 2, 1.0], [pi / 2, pi / 2 + 1e-9, 0.5], [1e-3, pi - 1e-3, 2.0, 2.0, 0.7]]
BW_LISTS = [[0.1, 0.5, 0.02, 1.0, 0.3, 0.3], [0.25, 0.5, 1e-3], [1.0, 0.7, 0.05, 0.2, 0.9]]


def run_streams(case):
  case = list(case) + ["stream"] * (5 - len(case))        # (artefacts older than the container kinds have four fields)
  fam, name, vi, which, ck = case
  if ck in ("hub1", "hub-shared"):
    del _SHARED[:]
    r = run_streams_inner(case)
    if r.viol is None:
      for h in _SHARED:                  # the use the caller kept is intact and sees the whole sequence
        try:
          rest = list(Stream(h))
        except Exception as exc:
          return bad("stream-params:hub-use", "a design given a 2-use hub took more than one use of it",
                     "one use left", type(exc).__name__ + ": " + str(exc)[:120])
        if len(rest) not in (len(PARAM_LISTS[vi]), len(BW_LISTS[vi]), 3, 5, 6):
          return bad("stream-params:hub-use", "the use of the hub kept by the caller does not see the whole sequence", None, rest)
    return r
  if ck != "stream":
    # Other iterables are not promised to be accepted everywhere (several designs do arithmetic on
    # the parameter before wrapping it): a TypeError is "unsupported", but an accepted iterable must
    # give the stream design
    try:
      r = run_streams_inner(case)
    except TypeError:
      return R(None, False, (fam, which, ck, "unsupported"))
    if r.viol is not None:
      return r
    # accepted by position: the same parameter given by keyword is the same call
    try:
      return run_streams_inner(case, True)
    except TypeError as exc:
      return bad("stream-params:keyword-route", "a %s parameter accepted by position is refused by keyword" % ck,
                 "accepted", "TypeError: " + str(exc)[:160])
  r = run_streams_inner(case)
  return r if r.viol is not None else run_streams_inner(case, True)


def _kwcall(design, kw, names, vals):
  if not kw:
    return design(*vals)
  import inspect
  try:
    target = getattr(design, "default", design) if not inspect.isfunction(design) else design
    sig = inspect.signature(target).parameters
    if any(p.kind in (p.VAR_POSITIONAL, p.VAR_KEYWORD) for p in sig.values()):
      raise ValueError
    params = list(sig)[:len(vals)]
  except (TypeError, ValueError):
    params = names
  return design(**dict(zip(params, vals)))


def run_streams_inner(case, kw=False):
  case = list(case) + ["stream"] * (5 - len(case))
  fam, name, vi, which, ck = case
  fs, bs = PARAM_LISTS[vi], BW_LISTS[vi]
  n = len(fs)
  if fam in ("lowpass", "highpass"):
    sd = lowpass if fam == "lowpass" else highpass
    f = _kwcall(sd[name], kw, ["cutoff"], [as_kind(ck, fs)])
    tabs = [coef_table(f, n)]
    refs = [[coef_table(sd[name](c), 1) for c in fs]]
  elif fam == "comb":
    # the delay is a constant, alpha / tau is stream-valued: coefficients sample by sample
    design = comb if name == "__call__" else comb[name]
    kindc = "fb" if name == "__call__" else [k[0] for k in comb.keys() if name in k][0]
    ps = [[0.5, -0.25, 0.9, 1.0, 0.99999999, 0.0], [1.0, 10.0, 4e7], [0.3, 0.3, -0.7, 0.2, 0.1]][vi]
    if kindc == "tau":
      ps = [abs(v) + 0.5 for v in ps]
    n = len(ps)
    f = _kwcall(design, kw, ["delay", "alpha"], [3, as_kind(ck, ps)])
    tabs = [coef_table(f, n)]
    refs = [[coef_table(design(3, c), 1) for c in ps]]
  else:
    design = resonator[name] if fam == "resonator" else gammatone[name]
    fa = as_kind(ck, fs) if which in ("both", "freq") else fs[0]
    ba = as_kind(ck, bs) if which in ("both", "bandwidth") else bs[0]
    out = _kwcall(design, kw, ["freq", "bandwidth"], [fa, ba])
    secs = list(out) if fam == "gammatone" else [out]
    tabs = [coef_table(s, n) for s in secs]
    refs = []
    for si in range(len(secs)):
      row = []
      for i in range(n):
        r = design(fs[i] if which in ("both", "freq") else fs[0], bs[i] if which in ("both", "bandwidth") else bs[0])
        r = list(r)[si] if fam == "gammatone" else r
        row.append(coef_table(r, 1))
      refs.append(row)
  for si, (tab, row) in enumerate(zip(tabs, refs)):
    for i in range(n):
      keys = set(k for k, v in row[i].items() if v[0] != 0) | set(k for k, v in tab.items() if len(v) > i and v[i] != 0)
      for k in keys:
        got = tab.get(k, [0] * n)
        if len(got) <= i:
          return bad("stream-params:length", "coefficient stream ended before the parameter stream",
                     {"section": si, "sample": i}, len(got))
        e = row[i].get(k, [0])[0]
        if abs(got[i] - e) > 4 * U * max(abs(e), abs(got[i])):
          return bad("stream-params:value", "with stream-valued parameters the coefficients must equal the "
                     "constant design's, sample by sample",
                     {"family": fam, "strategy": name, "section": si, "sample": i, "coefficient": list(k), "value": e},
                     got[i])
  return R(None, True, (fam, which, ck))


# ------------------------------------------------------------ calling routes
from ..routes import routes_agree


def filt_canon(f):
  secs = list(f) if isinstance(f, (list, tuple)) or type(f).__name__ in ("CascadeFilter", "ParallelFilter") else [f]
  return [sorted((tag, k, repr(v[0])) for (tag, k), v in coef_table(s, 1).items()) for s in secs]


def route_table():
  from audiolazy import comb, gammatone, erb
  T = OrderedDict()
  c = lambda v: (lambda: v)
  for sd, sdn in ((lowpass, "lowpass"), (highpass, "highpass")):
    for name in names_of(sd):
      T["%s.%s" % (sdn, name)] = (sd[name], [("cutoff", c(0.7))], filt_canon)
  for name in names_of(resonator):
    T["resonator." + name] = (resonator[name], [("freq", c(0.9)), ("bandwidth", c(0.2))], filt_canon)
  T["comb.fb"] = (comb.fb, [("delay", c(3)), ("alpha", c(0.5))], filt_canon)
  T["comb.ff"] = (comb.ff, [("delay", c(3)), ("alpha", c(0.5))], filt_canon)
  T["comb.tau"] = (comb.tau, [("delay", c(3)), ("tau", c(7.0))], filt_canon)
  T["gammatone.sampled"] = (gammatone.sampled, [("freq", c(0.9)), ("bandwidth", c(0.2)), ("phase", c(0.4)), ("eta", c(3))], filt_canon)
  T["gammatone.slaney"] = (gammatone.slaney, [("freq", c(0.9)), ("bandwidth", c(0.2))], filt_canon)
  T["gammatone.klapuri"] = (gammatone.klapuri, [("freq", c(0.9)), ("bandwidth", c(0.2))], filt_canon)
  return T


def gen_routes(run):
  for name in route_table():
    yield (name,)


def run_routes(case):
  f, spec, canon = route_table()[case[0]]
  return routes_agree(case[0], f, spec, canon)


def gen_types(run):
  from ..routes import struct_params
  try:
    T = route_table()
  except Exception:
    T = {}
  for name, ent in T.items():
    if struct_params(ent[1]):
      yield (name,)


def run_types(case):
  from ..routes import struct_params, types_agree
  ent = route_table()[case[0]]
  return types_agree(case[0], ent[0], ent[1], ent[2], struct_params(ent[1]))


KINDS = OrderedDict([
  ("lowpass-highpass", Kind(gen_lphp, run_lphp, chunk=1, timeout=120, rule="strategy/alias x slice of 64 cut-offs of the grid")),
  ("resonator", Kind(gen_resonator, run_resonator, chunk=1, timeout=120, rule="strategy/alias x bandwidth; frequency grid inside the case")),
  ("comb", Kind(gen_comb, run_comb, chunk=10, rule="strategy/alias x delay x alpha/tau; exact impulse-train response")),
  ("gammatone", Kind(gen_gammatone, run_gammatone, chunk=1, timeout=120, rule="strategy x bandwidth; frequency grid inside the case")),
  ("stream-params", Kind(gen_streams, run_streams, chunk=2, rule="stream-valued parameters vs constant designs, sample by sample")),
  ("call-routes", Kind(gen_routes, run_routes, chunk=1,
                       rule="each function with every documented parameter set: all positional / all keyword / every split must agree")),
  ("param-types", Kind(gen_types, run_types, chunk=1,
                       rule="structural integer parameters given as integral float / Fraction / bool: same result wherever the type is accepted")),
])
