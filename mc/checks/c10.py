"""
C10 - LPC / Levinson-Durbin solve their normal equations and report the true error.

E1 over exact rationals (Q): every autocorrelation vector generated from a
reflection-coefficient alphabet and from every data block of bounded length is
given to the real levinson_durbin / lpc.kautocor / lpc.kcovar at every order;
the returned predictor is substituted into the normal equations, whose
residuals must vanish exactly, and the reported error is compared with its
definition.  acorr / lag_matrix / toeplitz are compared with their plain sums.
"""
from collections import OrderedDict
from fractions import Fraction as F
import itertools, math
from ..runner import Kind, R, bad
from ..exact import Q
from ..ref import lpcref

from audiolazy import levinson_durbin, lpc, acorr, lag_matrix, toeplitz, ParCorError, ZFilter

PROPERTY = "C10"
LEVEL = "exploration"
RULE = ("all reflection vectors k in alphabet^p (p <= bound) x orders 0..p+1; all blocks of bounded "
        "length over the sample alphabet x all orders for levinson_durbin(acorr), lpc.kautocor, "
        "lpc.kcovar; all max_lag for acorr/lag_matrix/toeplitz. Non-trivial: order >= 2 or the "
        "recursion must refuse (zero prediction error)")
ASSUMPTIONS = [
  "samples and autocorrelations are exact rationals (Q), so all normal equations hold with residual 0",
  "lpc.kcovar's documented refusals (ValueError 'Unstable filter', ZeroDivisionError) are counted, not failed",
  "numpy strategies (nautocor, covar) are not exercised (numpy absent)",
]

KALPHA = ["-1/2", "-1/3", "0", "1/3", "1/2", "3/4"]
BALPHA = ["-1", "0", "1", "2"]
CALPHA = ["-3", "-1", "0", "1/2", "1", "2", "3"]


def bounds(run):
  return {"reflection_alphabet": KALPHA, "reflection_len": run.pick(3, 4),
          "block_alphabet": BALPHA, "block_len": run.pick(5, 6),
          "kcovar_block_alphabet": CALPHA, "kcovar_block_len": run.pick(4, 5)}


def qs(v):
  return [Q(x) for x in v]


def numer(filt):
  return [F(Q(v).f) if not isinstance(v, F) else v for v in filt.numerator]


def fr(v):
  return Q(v).f


def check_yule_walker(a, r, order, err, key, nt):
  """sum_j a_j r|i-j| == 0 for i = 1..order; a_0 == 1; err == sum_j a_j r_j."""
  r = list(r) + [F(0)] * max(order + 1 - len(r), 0)
  a = list(a) + [F(0)] * (order + 1 - len(a))
  if len(a) != order + 1:
    return bad(key + ":order", "predictor has more coefficients than the order", order + 1, len(a), nt)
  if a[0] != 1:
    return bad(key + ":monic", "predictor must be monic", 1, a[0], nt)
  for i in range(1, order + 1):
    res = sum((a[j] * r[abs(i - j)] for j in range(order + 1)), F(0))
    if res != 0:
      return bad(key + ":normal-equations", "Yule-Walker residual is not zero",
                 {"row": i, "residual": 0}, {"residual": res, "a": a, "r": r}, nt)
  e = sum((a[j] * r[j] for j in range(order + 1)), F(0))
  if fr(err) != e:
    return bad(key + ":error", "reported error differs from sum_j a_j r_j", e, err, nt)
  return None


# ----------------------------------------------------- reflection vectors
def gen_reflection(run):
  pmax = run.pick(3, 4)
  for p in range(0, pmax + 1):
    for ks in itertools.product(run.rot(KALPHA), repeat=p):
      for r0 in ("1", "5/2"):
        yield (list(ks), r0)


def run_reflection(case):
  ks, r0 = case
  p = len(ks)
  r = lpcref.acorr_from_reflection(ks, F(r0))
  nt = p >= 2
  # ONE lag list serves every call (a zero-extending order first, the default order after it):
  # the function must not change its argument
  shared = qs(r)
  snapshot = list(shared)
  held = []
  for order in list(range(0, p + 1)) + [p + 2, None, p + 1]:
    try:
      if order is None:
        filt = levinson_durbin(shared)
        o = p
      else:
        filt = levinson_durbin(shared, order)
        o = order
      if len(shared) != len(snapshot) or any(a is not b for a, b in zip(shared, snapshot)):
        return bad("levinson:mutates-argument", "levinson_durbin changed the lag list it was given",
                   {"lags": snapshot, "order": order}, list(shared), nt)
    except ParCorError:
      try:
        lpcref.levinson(r, p if order is None else order)
      except lpcref.ZeroError:
        continue
      return bad("levinson:parcor-error", "ParCorError although no prediction error is zero",
                 None, {"r": r, "order": order}, nt)
    except Exception as exc:
      return bad("levinson:exception:" + type(exc).__name__, "levinson_durbin raised", None, str(exc)[:200], nt)
    try:
      ra, rE, rk = lpcref.levinson(r, o)
    except lpcref.ZeroError:
      return bad("levinson:no-parcor-error", "recursion hits a zero prediction error: ParCorError expected",
                 "ParCorError", str(filt), nt)
    if not isinstance(filt, ZFilter):
      return bad("levinson:type", "result must be a ZFilter", "ZFilter", type(filt).__name__, nt)
    a = numer(filt) if len(filt.numpoly) else [F(0)]
    v = check_yule_walker(a, r, o, filt.error, "levinson", nt)
    if v: return v
    a = a + [F(0)] * (o + 1 - len(a))
    if a != ra:
      return bad("levinson:coefficients", "coefficients differ from the reference recursion", ra, a, nt)
    if o <= p and rk != [F(k) for k in ks[:o]]:
      return bad("levinson:reference", "harness: reference recursion lost the reflection coefficients", ks, rk, nt)
    # error = r0 * prod(1 - k^2)
    e = F(r0)
    for k in rk:
      e *= 1 - k * k
    if fr(filt.error) != e:
      return bad("levinson:error-product", "error != r0 * prod(1 - k_m^2)", e, filt.error, nt)
    held.append((order, filt, e, list(ra)))
    # the same lags as plain Python ints with a common factor (and as plain Fractions): the solution does
    # not depend on the scale of the lags, the error attribute scales with it
    if order is not None and order <= p:
      lcm = 1
      for v in r:
        lcm = lcm * F(v).denominator // math.gcd(lcm, F(v).denominator)
      for scale, typ in ((6 * lcm, "int"), (F(1, 3), "Fraction")):
        lags = [int(v * scale) for v in r] if typ == "int" else [v * scale for v in r]
        try:
          f2 = levinson_durbin(list(lags), order)
        except Exception as exc:
          return bad("levinson:lag-types", "levinson_durbin raised for %s lags" % typ, None, str(exc)[:160], nt)
        a2 = [F(v) if typ != "int" else v for v in f2.numerator]
        a2 = a2 + [0] * (len(ra) - len(a2))
        tol = 1e-9          # plain ints and Fractions meet float constants inside the library
        if any(abs(float(x_) - float(y_)) > tol * (1 + abs(float(y_))) for x_, y_ in zip(a2, ra)) or \
           abs(float(f2.error) - float(e * scale)) > max(tol, 1e-12) * (1 + abs(float(e * scale))):
          return bad("levinson:lag-types", "with %s lags (the same sequence times %s) the coefficients must be the "
                     "same and the error must scale with the lags" % (typ, scale),
                     {"a": [str(v) for v in ra], "error": str(e * scale)},
                     {"a": [str(v) for v in a2], "error": str(f2.error)}, nt)
  # every result is its own object: later calls (other orders, other lags) leave the earlier results alone
  other = levinson_durbin(qs([F(7)] + [F(0)] * p), p)            # white lags: every reflection coefficient is zero
  for i, (order, filt, e, ra) in enumerate(held):
    if filt is other or any(filt is g for _, g, _, _ in held[i + 1:]):
      return bad("levinson:shared-result", "two calls returned the same filter object", None, {"order": order}, nt)
    a = numer(filt) if len(filt.numpoly) else [F(0)]
    a = a + [F(0)] * (len(ra) - len(a))
    if fr(filt.error) != e or a != ra:
      return bad("levinson:result-changed", "a result held by the caller was changed by a later call",
                 {"order": order, "error": e}, {"error": filt.error, "a": a}, nt)
  return R(None, nt, p)


# -------------------------------------------------------------- data blocks
def gen_blocks(run):
  lmax = run.pick(5, 6)
  for n in range(1, lmax + 1):
    for blk in itertools.product(run.rot(BALPHA), repeat=n):
      yield list(blk)


def energy(a, x):
  """Energy of a convolved with the zero-extended block."""
  N, p = len(x), len(a) - 1
  tot = F(0)
  for n in range(N + p):
    e = sum((a[j] * x[n - j] for j in range(p + 1) if 0 <= n - j < N), F(0))
    tot += e * e
  return tot


def run_block(case):
  blk = [F(v) for v in case]
  N = len(blk)
  qb = qs(blk)
  # acorr with every max_lag (and the default)
  for ml in [None] + list(range(0, N + 2)):
    got = acorr(qb) if ml is None else acorr(qb, ml)
    m = N - 1 if ml is None else ml
    exp = [sum((blk[n] * blk[n + t] for n in range(N - t)), F(0)) for t in range(m + 1)]
    if len(got) != len(exp) or any(fr(g) != e for g, e in zip(got, exp)):
      return bad("acorr", "acorr is not the plain lag sum", exp, got)
  r = [sum((blk[n] * blk[n + t] for n in range(N - t)), F(0)) for t in range(N)]
  for kind in ("list", "tuple"):
    src = qs(r) if kind == "list" else tuple(qs(r))
    try:
      T = toeplitz(src)
    except Exception as exc:
      return bad("toeplitz:exception:" + type(exc).__name__, "toeplitz raised for a %s of lags" % kind, None, str(exc)[:160])
    if [[fr(v) for v in row] for row in T] != [[r[abs(i - j)] for i in range(N)] for j in range(N)]:
      return bad("toeplitz", "toeplitz is not the table r[|i-j|]", None, T)
    if kind == "list":
      # the table is a new object: loading its diagonal must not change the lags it was built from
      for i in range(N):
        T[i][i] = T[i][i] + 1
      if [fr(v) for v in src] != r or any(row is src for row in T):
        return bad("toeplitz:aliases-input", "the table returned by toeplitz shares a line with its input list",
                   r, [fr(v) for v in src])
  for ml in range(0, N):
    lm = lag_matrix(qb, ml) if ml < N - 1 or N == 1 else lag_matrix(qb)
    exp = [[sum((blk[n - i] * blk[n - j] for n in range(ml, N)), F(0)) for i in range(ml + 1)]
           for j in range(ml + 1)]
    if [[fr(v) for v in row] for row in lm] != exp:
      return bad("lag_matrix", "lag_matrix is not the plain covariance table", exp, lm)
  # the same buffer object rewritten in place between two calls (frame-by-frame reuse):
  # results must follow the contents, not the object
  if N >= 2:
    buf = list(qb)
    new = [Q(v) for v in ([blk[-1] + 1] + blk[:-1])]
    for ml in (N - 1, max(N - 2, 0)):
      lag_matrix(buf, ml); acorr(buf, ml)
      buf[:] = new
      nb = [v.f for v in new]
      exp = [[sum((nb[n - i] * nb[n - j] for n in range(ml, N)), F(0)) for i in range(ml + 1)]
             for j in range(ml + 1)]
      if [[fr(v) for v in row] for row in lag_matrix(buf, ml)] != exp:
        return bad("lag_matrix:reused-buffer", "lag_matrix of a buffer rewritten in place must follow its contents",
                   exp, lag_matrix(buf, ml))
      exp = [sum((nb[n] * nb[n + t] for n in range(N - t)), F(0)) for t in range(ml + 1)]
      if [fr(v) for v in acorr(buf, ml)] != exp:
        return bad("acorr:reused-buffer", "acorr of a buffer rewritten in place must follow its contents",
                   exp, acorr(buf, ml))
      buf[:] = qb
  try:
    lag_matrix(qb, N)
    return bad("lag_matrix:order", "max_lag >= len(blk) must be refused", "ValueError", "returned")
  except ValueError:
    pass
  nt = N >= 3
  refused = 0
  for order in range(1, N + 2):
    # levinson on acorr, and lpc.kautocor
    for route in ("levinson", "kautocor"):
      try:
        if route == "levinson":
          filt = levinson_durbin(acorr(qb), order)
        else:
          filt = lpc.kautocor(qb, order)
      except ParCorError:
        try:
          lpcref.levinson(r, order)
        except lpcref.ZeroError:
          refused += 1
          continue
        return bad(route + ":parcor-error", "ParCorError although no prediction error is zero",
                   None, {"block": blk, "order": order}, nt)
      except Exception as exc:
        return bad(route + ":exception:" + type(exc).__name__, "raised", None, str(exc)[:200], nt)
      try:
        lpcref.levinson(r, order)
      except lpcref.ZeroError:
        return bad(route + ":no-parcor-error", "zero prediction error: ParCorError expected", "ParCorError", str(filt), nt)
      a = numer(filt)
      v = check_yule_walker(a, r, order, filt.error, route, nt)
      if v: return v
      a = a + [F(0)] * (order + 1 - len(a))
      if fr(filt.error) != energy(a, blk):
        return bad(route + ":energy", "error attribute is not the energy of a * (zero-extended block)",
                   energy(a, blk), filt.error, nt)
  return R(None, nt, (N, refused > 0))


# ----------------------------------------------------------------- kcovar
def gen_kcovar(run):
  lmax = run.pick(4, 5)
  for n in range(2, lmax + 1):
    for blk in itertools.product(run.rot(CALPHA), repeat=n):
      yield list(blk)


def run_kcovar(case):
  blk = [F(v) for v in case]
  N = len(blk)
  qb = qs(blk)
  outcomes = []
  nt = False
  buf = [Q(v + 1) for v in blk]          # previous frame held by the same list object
  for order in [None] + list(range(1, N)):
    p = N - 1 if order is None else order
    try:
      lpc.kcovar(buf) if order is None else lpc.kcovar(buf, order)
    except Exception:
      pass
    buf[:] = qb                            # the frame is rewritten in place
    try:
      filt = lpc.kcovar(buf) if order is None else lpc.kcovar(buf, order)
    except ValueError:
      outcomes.append("unstable")
      continue
    except ZeroDivisionError:
      outcomes.append("singular")
      continue
    except Exception as exc:
      return bad("kcovar:exception:" + type(exc).__name__, "lpc.kcovar raised", None, str(exc)[:200])
    buf[:] = [Q(v + 1) for v in blk]
    outcomes.append("ok")
    nt = True
    a = numer(filt)
    a = a + [F(0)] * (p + 1 - len(a))
    if len(a) != p + 1 or a[0] != 1:
      return bad("kcovar:shape", "predictor must be monic of the requested order", p, a)
    phi = [[sum((blk[n - i] * blk[n - j] for n in range(p, N)), F(0)) for j in range(p + 1)]
           for i in range(p + 1)]
    for i in range(1, p + 1):
      res = sum((a[j] * phi[i][j] for j in range(p + 1)), F(0))
      if res != 0:
        return bad("kcovar:normal-equations", "covariance normal equation residual is not zero",
                   {"row": i, "residual": 0}, {"residual": res, "a": a, "block": blk, "order": p})
    e = F(0)
    for n in range(p, N):
      t = sum((a[j] * blk[n - j] for j in range(p + 1)), F(0))
      e += t * t
    if fr(filt.error) != e:
      return bad("kcovar:error", "error attribute is not the residual energy over n >= p", e, filt.error)
  return R(None, nt, tuple(sorted(set(outcomes))), extra={"kcovar_" + o: outcomes.count(o) for o in set(outcomes)})


# ------------------------------------------------------------ calling routes
from ..routes import routes_agree


def route_table():
  from audiolazy import lag_matrix
  T = OrderedDict()
  c = lambda v: (lambda: v)
  blk = lambda: qs([F(1), F(-2), F(3), F(1), F(0), F(2)])
  fc = lambda f: [sorted((k, str(fr(v))) for k, v in f.numpoly.terms()), str(fr(f.error))]
  T["levinson_durbin"] = (levinson_durbin, [("acdata", lambda: qs([F(5), F(2), F(1), F(1, 2)])), ("order", c(2))], fc)
  T["levinson_durbin(order>=len)"] = (levinson_durbin, [("acdata", lambda: qs([F(5), F(2), F(1), F(1, 2)])), ("order", c(6))], fc)
  T["lpc.kautocor"] = (lpc.kautocor, [("blk", blk), ("order", c(2))], fc)
  T["lpc.kcovar"] = (lpc.kcovar, [("blk", blk), ("order", c(2))], fc)
  T["acorr"] = (acorr, [("blk", blk), ("max_lag", c(3))], lambda v: [str(fr(e)) for e in v])
  T["lag_matrix"] = (lag_matrix, [("blk", blk), ("max_lag", c(2))], lambda m: [[str(fr(e)) for e in row] for row in m])
  T["toeplitz"] = (toeplitz, [("vect", lambda: qs([F(3), F(2), F(1)]))], lambda m: [[str(fr(e)) for e in row] for row in m])
  return T


def gen_routes(run):
  for name in route_table():
    yield (name,)


def run_routes(case):
  f, spec, canon = route_table()[case[0]]
  return routes_agree(case[0], f, spec, canon)


# ---------------------------------------------------------------- long blocks
def gen_long(run):
  for n in (33, 64, 65, 80, 96, 97, 129, 150, 200) + ((512,) if run.tier != "quick" else ()):
    for seed in (1, 2):
      yield (n, seed)


def run_long(case):
  """Blocks of tens to hundreds of samples (sums of more than 32 / 64 / 128 products), small orders:
  acorr, lag_matrix, lpc.kautocor and lpc.kcovar against the plain sums and their normal equations."""
  n, seed = case
  v, blk = seed, []
  for _ in range(n):
    v = (v * 1103515245 + 12345) % (2 ** 31)
    blk.append(F(((v >> 8) % 9) - 4, 1 if (v >> 5) % 3 else 2))
  qb = qs(blk)
  N = n
  for ml in (None, 0, 1, 5, 31):
    got = acorr(qb) if ml is None else acorr(qb, ml)
    m = N - 1 if ml is None else ml
    exp = [sum((blk[i] * blk[i + t] for i in range(N - t)), F(0)) for t in range(m + 1)]
    if len(got) != len(exp) or any(fr(g) != e for g, e in zip(got, exp)):
      k = next((i for i, (g, e) in enumerate(zip(got, exp)) if fr(g) != e), -1)
      return bad("acorr:long", "acorr of a long block is not the plain lag sum", {"lag": k, "value": str(exp[k])},
                 str(fr(got[k])) if 0 <= k < len(got) else len(got), True)
  for ml in (1, 3):
    lm = lag_matrix(qb, ml)
    exp = [[sum((blk[i - a] * blk[i - b] for i in range(ml, N)), F(0)) for a in range(ml + 1)] for b in range(ml + 1)]
    if [[fr(x_) for x_ in row] for row in lm] != exp:
      return bad("lag_matrix:long", "lag_matrix of a long block is not the plain covariance table",
                 [[str(x_) for x_ in row] for row in exp], [[str(fr(x_)) for x_ in row] for row in lm], True)
  r = [sum((blk[i] * blk[i + t] for i in range(N - t)), F(0)) for t in range(6)]
  for order in (1, 3, 5):
    try:
      filt = lpc.kautocor(qb, order)
    except ParCorError:
      continue
    a = numer(filt)
    v_ = check_yule_walker(a, r, order, filt.error, "kautocor-long", True)
    if v_: return v_
    a = a + [F(0)] * (order + 1 - len(a))
    if fr(filt.error) != energy(a, blk):
      return bad("kautocor:energy-long", "error attribute is not the energy of a * (zero-extended block)",
                 str(energy(a, blk)), str(fr(filt.error)), True)
  for order in (1, 2):
    try:
      filt = lpc.kcovar(qb, order)
    except (ValueError, ZeroDivisionError, ParCorError):
      continue
    a = numer(filt) + [F(0)] * (order + 1 - len(numer(filt)))
    phi = [[sum((blk[i - p] * blk[i - q] for i in range(order, N)), F(0)) for q in range(order + 1)] for p in range(order + 1)]
    for i in range(1, order + 1):
      if sum((a[j] * phi[i][j] for j in range(order + 1)), F(0)) != 0:
        return bad("kcovar:normal-equations-long", "covariance normal equations violated on a long block",
                   0, {"row": i, "order": order}, True)
    if fr(filt.error) != sum((a[j] * phi[0][j] for j in range(order + 1)), F(0)):
      return bad("kcovar:error-long", "kcovar error is not the residual energy", None, str(fr(filt.error)), True)
  return R(None, True, (n > 64, n > 128))



# ---------------------------------------------------- plain Python ints as samples (PCM-like data)
INT_ALPHA = [-32768, -127, -7, -1, 0, 3, 7, 127, 32767]


def gen_int_blocks(run):
  import itertools as _it
  for n in range(1, run.pick(3, 4) + 1):
    for blk in _it.product(INT_ALPHA, repeat=n):
      yield list(blk)
  for blk in ([7] * 3, [3] * 15, [32767, -32767] * 50, [127, 127, -127] * 5, [6, 7, -7], [1] * 64, [-32768] * 33,
              [2 ** 31 - 1] * 8, [2 ** 62, -2 ** 62, 2 ** 62]):
    yield list(blk)


def run_int_blocks(case):
  """Blocks of plain ints, small and full scale: acorr / lag_matrix are the plain (exact, unbounded) integer
  sums, and lpc.kautocor solves the system of those lags."""
  blk = list(case)
  N = len(blk)
  for ml in (None, 0, 1, N - 1, N + 1):
    try:
      got = acorr(list(blk)) if ml is None else acorr(list(blk), ml)
    except Exception as exc:
      return bad("acorr:int:exception", "acorr of an int block raised", None, repr(exc)[:200], True)
    m = N - 1 if ml is None else ml
    exp = [sum(blk[i] * blk[i + t] for i in range(max(N - t, 0))) for t in range(m + 1)]
    if len(got) != len(exp) or any(F(g) != e for g, e in zip(got, exp)):
      return bad("acorr:int", "acorr of a block of plain ints is not the plain lag sum", [str(e) for e in exp], [str(g) for g in got], True)
  if N >= 2:
    ml = min(2, N - 1)
    lm = lag_matrix(list(blk), ml)
    exp = [[sum(blk[i - a] * blk[i - b] for i in range(ml, N)) for a in range(ml + 1)] for b in range(ml + 1)]
    if [[F(x_) for x_ in row] for row in lm] != exp:
      return bad("lag_matrix:int", "lag_matrix of a block of plain ints is not the plain covariance table",
                 [[str(x_) for x_ in row] for row in exp], [[str(x_) for x_ in row] for row in lm], True)
  return R(None, N >= 2, (N, max(abs(v) for v in blk) > 1000))

def gen_types(run):
  from ..routes import struct_params
  try:
    T = route_table()
  except Exception:
    T = {}
  for name, ent in T.items():
    if struct_params(ent[1]):
      yield (name,)


def run_types(case):
  from ..routes import struct_params, types_agree
  ent = route_table()[case[0]]
  return types_agree(case[0], ent[0], ent[1], ent[2], struct_params(ent[1]))


KINDS = OrderedDict([
  ("reflection", Kind(gen_reflection, run_reflection, chunk=10,
                      rule="reflection vectors x r0 x orders; non-trivial: p >= 2")),
  ("blocks", Kind(gen_blocks, run_block, chunk=8,
                  rule="data blocks x orders: acorr/toeplitz/lag_matrix tables, levinson_durbin, lpc.kautocor")),
  ("kcovar", Kind(gen_kcovar, run_kcovar, chunk=8,
                  rule="data blocks x orders for lpc.kcovar; non-trivial: it returned a filter")),
  ("call-routes", Kind(gen_routes, run_routes, chunk=1,
                       rule="each function with every documented parameter set: all positional / all keyword / every split must agree")),
  ("int-blocks", Kind(gen_int_blocks, run_int_blocks, chunk=200,
                      rule="all blocks of 1..3 (4) plain ints over {0, +-1, 3, +-7, +-127, full scale} + constant / alternating full-scale blocks: acorr, lag_matrix")),
  ("long", Kind(gen_long, run_long, chunk=1, timeout=600, rule="pseudo-random exact blocks of 33..200 (512) samples x small orders")),
  ("param-types", Kind(gen_types, run_types, chunk=1,
                       rule="structural integer parameters given as integral float / Fraction / bool: same result wherever the type is accepted")),
])
