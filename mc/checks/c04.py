"""
C04 - A constant-coefficient filter computes its difference equation.

E1 with formal samples: every coefficient-vector shape within the bound is
compiled by the real ``LinearFilter.__call__`` and run ONCE on symbolic input,
symbolic zero and symbolic memory (linear forms over Q), which decides the
identity  a0*y[n] = sum b_k x[n-k] - sum a_k y[n-k]  for every numeric input of
that shape; concrete exact vectors accompany every shape, and the
memory / zero / constructor variants are enumerated on a sub-alphabet.
"""
from collections import OrderedDict
from fractions import Fraction as F
import itertools
from ..runner import Kind, R, bad
from ..exact import Q, Sym, sym, syms, NonLinear

from audiolazy import ZFilter, LinearFilter, z, Stream

PROPERTY = "C04"
LEVEL = "exploration"
RULE = ("all (numerator, denominator) coefficient vectors within the length bound over the "
        "coefficient alphabet, each run on symbolic input/zero/memory plus a concrete exact "
        "vector; variants (memory kind x zero kind x constructor x input length) on the "
        "sub-alphabet; non-trivial: the filter has at least two non-zero coefficients or feedback")
ASSUMPTIONS = [
  "coefficients are plain int/float/Fraction (they are embedded textually in the generated loop); "
  "samples, zero and memory are exact (Q) or symbolic (Sym)",
  "linearity in the samples is checked, not assumed: outputs are compared as linear forms "
  "coefficient by coefficient and any value-dependent branch on a symbolic sample raises",
  "memories shorter than the filter order are outside the property ('sufficient length')",
]

B_ALPHA = [0, 1, -1, 2, -3, 0.5]
A0_ALPHA = [1, -1, 2, -0.5, F(1, 2), 3, 0.3]
SPARSE = [({0: 1, 5: -1}, {0: 1}), ({3: 2}, {0: 1}), ({0: 1}, {0: 1, 4: 0.5}),
          ({2: -1, 6: 3}, {0: 2, 3: -1}), ({0: 1, 1: 1}, {0: -1, 7: 1}),
          # delays of two digits (the generated names m10, d11 ... sort differently as strings)
          ({0: 1}, {0: 1, 10: 0.5}), ({0: 1, 10: -1}, {0: 1, 9: 0.5, 11: -0.25}),
          ({1: 2, 12: 1}, {0: 2, 2: 1, 12: -1}), ({0: 1, 9: 1, 10: 2, 11: 3}, {0: 3, 1: 1, 10: 1, 13: -2}),
          # neighbours of the special values +1 / -1 / 0 (they are NOT special)
          ({0: 1 + 2.0 ** -30, 1: -1 - 2.0 ** -30}, {0: 1}), ({0: 1}, {0: 1 - 2.0 ** -30, 1: 0.9999999}),
          ({0: 0.9999999, 2: 2.0 ** -40}, {0: -1.0000001, 1: -1 + 2.0 ** -29, 2: 1 + 2.0 ** -35}),
          ({0: 1}, {0: -1 - 2.0 ** -31, 3: 1 - 2.0 ** -33})]


def bounds(run):
  return {"coefficient_alphabet": [str(c) for c in B_ALPHA],
          "a0_alphabet": [str(c) for c in A0_ALPHA],
          "max_len_numerator": run.pick(3, 4), "max_len_denominator": 3, "max_len_variants": 2,
          "input_length_full": 5, "input_lengths_variants": [0, 1, 2, 6],
          "memory_kinds": MEMS, "zero_kinds": ZEROS, "constructors": CTORS}


def enc(c):
  return "F1/2" if isinstance(c, F) else c


def dec(c):
  return F(1, 2) if c == "F1/2" else c


def vectors(maxlen, alpha, first=None):
  for n in range(1, maxlen + 1):
    for rest in itertools.product(alpha, repeat=n - (1 if first else 0)):
      if first:
        for f in first:
          yield [f] + list(rest)
      else:
        yield list(rest)


# ------------------------------------------------------------ reference
def ref_filter(b, a, x, zero, mem):
  """b, a: {delay: coefficient}; x: samples; mem[k-1] = y[-k]."""
  a0 = a[0]
  y = []
  if not b and max(a) == 0:
    # the statement's special case: the all-zero filter outputs the zero value
    return [Sym.lift(zero) for _ in x]
  for n in range(len(x)):
    acc = Sym(0)
    for k, c in b.items():
      acc = acc + c * (x[n - k] if n - k >= 0 else zero)
    for k, c in a.items():
      if k >= 1:
        acc = acc - c * (y[n - k] if n - k >= 0 else mem[k - n - 1])
    y.append(acc / a0)
  return y


def as_dict(v):
  if isinstance(v, dict):
    return {int(k): dec(c) for k, c in v.items() if dec(c) != 0}
  return {k: dec(c) for k, c in enumerate(v) if dec(c) != 0}


MEMS = ["none", "exact", "longer", "generator", "callable", "stream", "stream-copy"]
ZEROS = ["sym", "Q0", "int0", "float0"]
CTORS = ["list", "dict", "zexpr", "LinearFilter"]


def build(ctor, b, a):
  bd, ad = as_dict(b), as_dict(a)
  if ctor == "list" and not isinstance(b, dict):
    return ZFilter([dec(c) for c in b], [dec(c) for c in a])
  if ctor in ("dict", "list"):
    return ZFilter(dict(bd), dict(ad))
  if ctor == "LinearFilter":
    return LinearFilter(dict(bd), dict(ad))
  num = sum((c * z ** -k for k, c in bd.items()), 0 * z)
  den = sum((c * z ** -k for k, c in ad.items()), 0 * z)
  return num / den


class ReIter(object):
  """An input that is re-iterable but neither a list nor a Stream."""
  def __init__(self, data):
    self.data = list(data)
  def __iter__(self):
    return iter(list(self.data))


XKINDS = ["list", "tuple", "stream", "iter", "generator", "reiter", "stream-of-iter"]


def as_input(xk, x):
  x = list(x)
  return {"list": lambda: x, "tuple": lambda: tuple(x), "stream": lambda: Stream(x), "iter": lambda: iter(x),
          "generator": lambda: (v for v in x), "reiter": lambda: ReIter(x),
          "stream-of-iter": lambda: Stream(iter(x))}[xk]()


def run_filter(case):
  b, a, ctor, memk, zk, L, conc = case[:7]
  xk = case[7] if len(case) > 7 else "list"          # how the input sequence is handed over
  bd, ad = as_dict(b), as_dict(a)
  order = max(ad)
  zero = {"sym": sym("zr"), "Q0": Q(0), "int0": 0, "float0": 0.0}[zk]
  x = syms("x", L)
  msyms = syms("m", order, 1)
  called = []
  if memk == "none":
    mem_arg, mem = None, [zero] * order
  elif memk == "exact":
    mem_arg, mem = list(msyms), msyms
  elif memk == "longer":
    mem_arg, mem = list(msyms) + [sym("extra1"), sym("extra2")], msyms
  elif memk == "generator":
    def endless_mem():
      for v in msyms:
        yield v
      for i in range(64):
        yield sym("extra")
      raise RuntimeError("the endless memory iterable was drained (only its first `order` items are needed)")
    mem_arg = endless_mem()
    mem = msyms
  elif memk == "stream":
    # a Stream is iterable AND callable: it must be iterated, not called
    mem_arg, mem = Stream(list(msyms) + [sym("extra1")]), msyms
  elif memk == "stream-copy":
    base = Stream(list(msyms) + [sym("extra1"), sym("extra2")])
    mem_arg, mem = base.copy(), msyms
  else:
    def mem_arg(size):
      called.append(size)
      return list(msyms) + [sym("extra")]
    mem = msyms
  nontriv = (len(bd) + len(ad)) >= 3 or order >= 1
  try:
    # decoy: a filter with the same delays but other coefficient values, run first in the same
    # process (anything remembered between calls - compiled loops, memories - must not leak)
    dec_b = {k: (c + 1 if c + 1 != 0 else c + 2) for k, c in bd.items()} or {0: 1}
    dec_a = {k: (c if k == 0 else c * 2) for k, c in ad.items()}
    list(ZFilter(dict(dec_b), dict(dec_a))([Q(3), Q(-1), Q(2)], zero=Q(7)))
    # two more: everything equal but the leading denominator coefficient (the output gain)
    for g_ in (2, -1):
      dec_a2 = dict(ad)
      dec_a2[0] = ad.get(0, 1) * g_
      if bd:
        list(ZFilter(dict(bd), dec_a2)([Q(3), Q(-1), Q(2)], zero=Q(7)))
    filt = build(ctor, b, a)
    kw = {}
    if memk != "none":
      kw["memory"] = mem_arg
    if not (zk == "float0" and memk == "none" and ctor == "list"):
      kw["zero"] = zero           # otherwise exercise the documented default 0.0
    out = filt(as_input(xk, x), **kw)
    if memk in ("exact", "longer") and (len(bd) + order + L) % 2 == 0:
      # the memory is what was handed over AT THE CALL: recycling the list afterwards (before the
      # result is first read) must not change the output
      mem_arg[:] = [sym("recycled%d" % i_) for i_ in range(len(mem_arg))][::-1]
    if not isinstance(out, Stream):
      return bad("filter:type", "filter call must return a Stream", "Stream", type(out).__name__)
    got = list(out)
  except NonLinear as exc:
    return bad("filter:nonlinear", "the filter used a sample in a non-linear / value-dependent way",
               None, str(exc), nontriv)
  except Exception as exc:
    return bad("filter:exception:" + type(exc).__name__,
               "filter construction or run raised", "a Stream of %d outputs" % L,
               {"exc": type(exc).__name__, "msg": str(exc)[:200]}, nontriv)
  exp = ref_filter(bd, ad, x, zero, mem)
  if len(got) != len(exp):
    return bad("filter:length", "one output per input", len(exp), len(got), nontriv)
  if not bd and order == 0:
    # all-zero filter: the zero value once per input
    for g in got:
      if not (g == zero):
        return bad("filter:allzero", "the all-zero filter must output the zero value", zero, got, nontriv)
  for n, (g, e) in enumerate(zip(got, exp)):
    if not (Sym.lift(g) is not None and Sym.lift(g) == e):
      return bad("filter:value", "output differs from the difference equation",
                 {"n": n, "y": e}, {"y": g, "all": got}, nontriv)
  if memk == "callable" and called != [order]:
    return bad("filter:memory-callable", "a callable memory must be asked once for the needed size",
               [order], called, nontriv)
  # concrete exact vector for the same shape
  if conc is not None:
    xs = CONCRETE[conc][:L]
    env = {"x%d" % i: v for i, v in enumerate(xs)}
    env.update({"m%d" % (i + 1): Q(i + 2, 3) for i in range(order)})
    env["zr"] = Q(-5, 4)
    kw = {"zero": Q(-5, 4)}
    if memk != "none":
      kw["memory"] = [Q(i + 2, 3) for i in range(order)]
      cexp = [e.subs(env) for e in ref_filter(bd, ad, x, sym("zr"), msyms)]
    else:
      cexp = [e.subs(env) for e in ref_filter(bd, ad, x, sym("zr"), [sym("zr")] * order)]
    try:
      cgot = list(build(ctor, b, a)(as_input(XKINDS[(XKINDS.index(xk) + 3) % len(XKINDS)], [Q(v) for v in xs]), **kw))
    except Exception as exc:
      return bad("filter:exception:" + type(exc).__name__, "concrete run raised", cexp,
                 {"exc": type(exc).__name__, "msg": str(exc)[:200]}, nontriv)
    if len(cgot) != len(cexp) or any(not (g == e) for g, e in zip(cgot, cexp)):
      return bad("filter:value-concrete", "output on exact numbers differs from the difference equation",
                 cexp, cgot, nontriv)
  shape = (len(bd), len(ad), order, ad[0] in (1, -1))
  return R(None, nontriv, shape)


CONCRETE = [[0] * 30, [1] * 30, [F(1, 2), -3, 0, 7, F(-2, 3), 1, 4, 4, -1, F(5, 7)] * 3,
            [1] + [0] * 29,
            # magnitudes far apart: exact arithmetic must not lose the small terms
            [F(10) ** 30, F(1, 10 ** 30), -F(10) ** 30, 1, F(-1, 10 ** 30), 0, F(10) ** 30 + 1, -1, F(3, 7), 2] * 3]


def gen_full(run):
  ml = run.pick(3, 4)
  i = 0
  avs = list(vectors(3, B_ALPHA, first=A0_ALPHA))      # denominators up to length 3 in both tiers
  for b in run.rot(list(vectors(ml, B_ALPHA))):
    for a in avs:
      i += 1
      yield ([enc(c) for c in b], [enc(c) for c in a], "list", "exact", "sym", 5, i % 5, XKINDS[i % len(XKINDS)])


def gen_variants(run):
  i = 0
  for b in vectors(2, B_ALPHA):
    for a in vectors(2, B_ALPHA, first=A0_ALPHA):
      for ctor in CTORS:
        for memk in MEMS:
          for zk in ZEROS:
            i += 1
            for L in ((0, 1, 2, 6)[i % 4],):
              yield ([enc(c) for c in b], [enc(c) for c in a], ctor, memk, zk, L, i % 5 if L else None,
                     XKINDS[(i // 4) % len(XKINDS)])
  for bd, ad in SPARSE:
    for ctor in ("dict", "zexpr", "LinearFilter"):
      for memk in MEMS:
        for zk in ZEROS:
          i += 1
          yield ({str(k): v for k, v in bd.items()}, {str(k): v for k, v in ad.items()},
                 ctor, memk, zk, 9 if max(list(bd) + list(ad)) < 8 else 30, 2, XKINDS[i % len(XKINDS)])


# ------------------------------------------------------- negative delays
def gen_noncausal(run):
  for ctor in ("dict", "zexpr", "LinearFilter"):
    for b in ({-1: 1}, {-1: 1, 0: 1}, {-2: 0.5, 1: 1}, {0: 1, 1: 2, -3: -1}):
      for a in ({0: 1}, {0: 2, 1: 1}, {0: -1, 2: 0.5}):
        for L in (0, 1, 3):
          yield ({str(k): v for k, v in b.items()}, {str(k): v for k, v in a.items()}, ctor, L)
  # non-causality produced by denominator normalisation: a0 = 0 shifts the numerator
  for b in ([1], [1, 1], [2, 0, 1]):
    for a in ([0, 1], [0, 2, 1], [0, 0, 1]):
      for L in (0, 2):
        yield (b, a, "list", L)


def run_noncausal(case):
  b, a, ctor, L = case
  try:
    if ctor == "list":
      filt = ZFilter(list(b), list(a))
    else:
      filt = build(ctor, b, a)
  except Exception as exc:
    return bad("noncausal:construct", "building a non-causal filter must be possible (it only refuses to run)",
               None, type(exc).__name__)
  try:
    out = filt(syms("x", L), zero=Q(0))
    got = list(out)
  except ValueError:
    return R(None, True, "ValueError")
  except Exception as exc:
    return bad("noncausal:wrong-exception", "a filter with a negative delay must refuse to run with ValueError",
               "ValueError", type(exc).__name__)
  return bad("noncausal:ran", "a filter with a negative delay must refuse to run with ValueError",
             "ValueError", got)


# ------------------------------------------------- coefficient number types
# Coefficients are pasted into generated source text: every number type must survive that
# (precedence of a complex literal, digits of a large int, a Fraction's slash, a negative value).
COEF_TYPES = OrderedDict([
  ("complex", [1 + 2j, 2 - 1j, 3j, -1 - 1j]),
  ("bigint", [2 ** 53 + 1, -(2 ** 60 + 3), 2 ** 64]),
  ("fraction", [F(1, 3), F(-7, 5), F(10 ** 17 + 1, 3)]),
  ("negint", [-2, -1, -17]),
  ("float", [0.1, -2.5, 1e-3, 1e22]),
  ("bool", [True]),
])
CT_SHAPES = ["fir2", "fir-gap", "fir-single-delay", "iir-a1", "iir-a2", "a0", "both-k1", "both-k0-k1", "both-k2"]
CT_X = [3, -1, 4, 1, -5, 9, 2, -6, 5, 3, 5, -9]


def gen_coef_types(run):
  for tname, vals in COEF_TYPES.items():
    for i in range(len(vals)):
      for shape in CT_SHAPES:
        for ctor in ("dict", "zexpr"):
          for zk in ("int0", "int7"):
            yield (tname, i, shape, ctor, zk)


def run_coef_types(case):
  tname, i, shape, ctor, zk = case
  vals = COEF_TYPES[tname]
  c, d = vals[i], vals[(i + 1) % len(vals)]
  if shape == "fir2": b, a = {0: c, 1: d}, {0: 1}
  elif shape == "fir-gap": b, a = {0: d, 3: c}, {0: 1}
  elif shape == "fir-single-delay": b, a = {2: c}, {0: 1}
  elif shape == "iir-a1": b, a = {0: 1}, {0: 1, 1: c}
  elif shape == "iir-a2": b, a = {0: d, 1: 1}, {0: 1, 2: c}
  # the same delay carries a coefficient of this type in the numerator AND in the denominator
  elif shape.startswith("both") and tname in ("fraction", "float") and max(abs(c), abs(d)) > 1000:
    # Fractions are evaluated in floating point by the generated code: with coefficients of 1e17 next to
    # samples of 1 the recurrence cancels catastrophically, which says nothing about the filter
    return R(None, False, "ill-conditioned in floating point")
  elif shape == "both-k1": b, a = {0: 1, 1: d}, {0: 1, 1: c}
  elif shape == "both-k2": b, a = {0: 1, 2: c}, {0: 1, 1: 1, 2: d}
  elif shape == "both-k0-k1":
    if tname in ("complex", "bigint", "float"):
      return R(None, False, "a0 needs exact division")
    b, a = {0: d, 1: c}, {0: c, 1: d}
  else:
    if tname in ("complex", "bigint", "float"):
      return R(None, False, "a0 needs exact division")     # y / a0 is not exact for these types
    b, a = {0: 1, 1: d}, {0: c, 1: 1}
  zero = 0 if zk == "int0" else 7
  x = list(CT_X)
  # reference: the recurrence in Python's own arithmetic on the same number types
  y = []
  for n in range(len(x)):
    acc = 0
    for k, cf in b.items():
      acc = acc + cf * (x[n - k] if n - k >= 0 else zero)
    for k, cf in a.items():
      if k >= 1:
        acc = acc - cf * (y[n - k] if n - k >= 0 else zero)
    y.append(acc / a[0] if a[0] != 1 else acc)
  try:
    if ctor == "dict":
      filt = ZFilter(dict(b), dict(a))
    else:
      filt = sum((cf * z ** -k for k, cf in b.items()), 0 * z) / sum((cf * z ** -k for k, cf in a.items()), 0 * z)
    got = list(filt(list(x), zero=zero))
  except Exception as exc:
    return bad("filter:exception:" + type(exc).__name__, "filter with %s coefficients raised" % tname,
               None, {"exc": type(exc).__name__, "msg": str(exc)[:200]}, True)
  # a Fraction is pasted as "1/3" and therefore evaluated in floating point by the generated code
  exact = tname not in ("float", "fraction")
  ok = len(got) == len(y) and all((g == e) if exact else abs(g - e) <= 1e-12 * (1 + abs(e)) for g, e in zip(got, y))
  if not ok:
    return bad("filter:coefficient-type", "output differs from the difference equation evaluated with the same "
               "%s coefficients" % tname, [str(v) for v in y[:6]], [str(v) for v in got[:6]], True)
  return R(None, True, (tname, shape))


# ------------------------------------------------------------ calling routes
from ..routes import routes_agree


def route_table():
  T = OrderedDict()
  c = lambda v: (lambda: v)
  for ctor in ("ZFilter", "LinearFilter"):
    cls = ZFilter if ctor == "ZFilter" else LinearFilter
    filt = cls([1, 2, -1], [2, 1, -1])
    T[ctor + ".__call__"] = (filt, [("seq", lambda: [Q(1), Q(-3), Q(2), Q(5), Q(0)]), ("memory", lambda: [Q(4), Q(-6)]),
                                   ("zero", c(Q(3)))], lambda g: [str(Q(v).f) for v in g])
  return T


def gen_routes(run):
  for name in route_table():
    yield (name,)


def run_routes(case):
  f, spec, canon = route_table()[case[0]]
  return routes_agree(case[0], f, spec, canon)


# ---------------------------------------------------------------- long inputs
def lcg(n, seed=1, mod=11):
  out, v = [], seed
  for _ in range(n):
    v = (v * 1103515245 + 12345) % (2 ** 31)
    out.append(v % mod - mod // 2)
  return out


LONG_SHAPES = [({0: 1, 1: -1}, {0: 1}), ({0: 1}, {0: 1, 1: F(-1, 2)}), ({0: 2, 3: 1}, {0: 2, 2: 1}),
               ({0: 1, 25: -1}, {0: 1}), ({0: 1}, {0: 1, 17: F(1, 2)}), ({5: 1, 6: 1}, {0: -1, 1: F(1, 4), 2: F(1, 8)})]


def dense_shape(nb, na):
  """nb numerator taps and na feedback taps, all non-zero, small integer / dyadic coefficients."""
  b = {k: ((k * 7) % 5) - 2 or 3 for k in range(nb)}
  a = {0: 1}
  a.update({k: F(((k * 3) % 7) - 3 or 2, 2 ** (6 + k % 3) * 64) for k in range(1, na + 1)})   # dyadic: exact as pasted text
  return b, a


# many terms: 31/32/33 ... around every multiple of 32, and 1500-term sums
for _nb, _na in ((31, 0), (32, 0), (33, 0), (63, 0), (64, 0), (65, 0), (96, 0), (128, 0), (129, 0), (16, 16), (32, 32),
                 (40, 24), (1, 63), (1, 64), (200, 0)):
  LONG_SHAPES.append(dense_shape(_nb, _na))


def gen_long(run):
  for i in range(len(LONG_SHAPES)):
    for L in (run.pick(300, 1500), 64, 65, 128, 129):
      for xk in ("list", "generator", "stream"):
        if i >= 6 and (L not in (129, 300, 1500) or xk != "list"):
          continue          # the many-term shapes: two lengths, one input kind
        yield (i, L if i < 6 else min(L, 300), xk)


def run_long(case):
  """Hundreds of samples (and lengths around powers of two): anything that works by batches, grows a
  buffer or switches algorithm with the length must still give the recurrence."""
  i, L, xk = case
  b, a = LONG_SHAPES[i]
  x = [F(v) for v in lcg(L, seed=i + 1)]
  y = []
  for n in range(L):
    acc = F(0)
    for k, c in b.items():
      if n - k >= 0: acc += c * x[n - k]
    for k, c in a.items():
      if k >= 1 and n - k >= 0: acc -= c * y[n - k]
    y.append(acc / a[0])
  try:
    filt = ZFilter({k: (c if F(c).denominator != 1 else int(c)) for k, c in b.items()},
                   {k: (c if F(c).denominator != 1 else int(c)) for k, c in a.items()})
    got = list(filt(as_input(xk, [Q(v) for v in x]), zero=Q(0)))
  except Exception as exc:
    return bad("filter:exception:" + type(exc).__name__, "long run raised", None, str(exc)[:200], True)
  if len(got) != L:
    return bad("filter:length", "one output per input (long input)", L, len(got), True)
  for n, (g, e) in enumerate(zip(got, y)):
    if not (Q(g).f == e):
      return bad("filter:value-long", "output differs from the difference equation on a long input",
                 {"n": n, "y": str(e)}, str(Q(g).f), True)
  return R(None, True, (i, L > 200))


# -------------------------------------- several filter runs alive at once
def gen_alive(run):
  for i in range(6):
    for who in ("same-object", "equal-filter", "other-filter"):
      for order in ("alternate", "two-one"):
        yield (i, who, order)


def run_alive(case):
  """Two runs alive together and consumed alternately (one filter object applied to two signals, two
  equal filters, two different filters of the same shape): each run is its own difference equation."""
  i, who, order = case
  b, a = LONG_SHAPES[i]
  L = 12
  mkf = lambda bb, aa: ZFilter({k: (c if F(c).denominator != 1 else int(c)) for k, c in bb.items()},
                               {k: (c if F(c).denominator != 1 else int(c)) for k, c in aa.items()})
  def ref(bb, aa, x):
    y = []
    for n in range(len(x)):
      acc = F(0)
      for k, c in bb.items():
        if n - k >= 0: acc += c * x[n - k]
      for k, c in aa.items():
        if k >= 1 and n - k >= 0: acc -= c * y[n - k]
      y.append(acc / aa[0])
    return y
  x1 = [F(v) for v in lcg(L, seed=3)]
  x2 = [F(v) for v in lcg(L, seed=8)]
  b2 = {k: c * 3 for k, c in b.items()} if who == "other-filter" else b
  try:
    f1 = mkf(b, a)
    f2 = f1 if who == "same-object" else mkf(b2, a)
    o1, o2 = iter(f1([Q(v) for v in x1], zero=Q(0))), iter(f2([Q(v) for v in x2], zero=Q(0)))
    g1, g2 = [], []
    while len(g1) < L or len(g2) < L:
      for _ in range(2 if order == "two-one" else 1):
        if len(g1) < L: g1.append(Q(next(o1)).f)
      if len(g2) < L: g2.append(Q(next(o2)).f)
  except Exception as exc:
    return bad("filter:alive:exception:" + type(exc).__name__, "two runs alive together raised", None, str(exc)[:200], True)
  if g1 != ref(b, a, x1) or g2 != ref(b2, a, x2):
    return bad("filter:alive", "two filter runs alive together and consumed alternately must each follow their own "
               "difference equation", {"y1": [str(v) for v in ref(b, a, x1)[:5]], "y2": [str(v) for v in ref(b2, a, x2)[:5]]},
               {"y1": [str(v) for v in g1[:5]], "y2": [str(v) for v in g2[:5]]}, True)
  return R(None, True, (who, order))


def gen_types(run):
  from ..routes import struct_params
  try:
    T = route_table()
  except Exception:
    T = {}
  for name, ent in T.items():
    if struct_params(ent[1]):
      yield (name,)


def run_types(case):
  from ..routes import struct_params, types_agree
  ent = route_table()[case[0]]
  return types_agree(case[0], ent[0], ent[1], ent[2], struct_params(ent[1]))


KINDS = OrderedDict([
  ("full", Kind(gen_full, run_filter, chunk=400,
                rule="all coefficient vectors up to the length bound; symbolic input, zero and memory")),
  ("variants", Kind(gen_variants, run_filter, chunk=400,
                    rule="sub-alphabet x constructor x memory kind x zero kind x input length")),
  ("coef-types", Kind(gen_coef_types, run_coef_types, chunk=10,
                      rule="coefficient number type (complex, large int, Fraction, negative, float, bool) x filter shape x constructor x zero value, concrete integer input")),
  ("noncausal", Kind(gen_noncausal, run_noncausal, chunk=50,
                     rule="filters with a negative delay (direct or by normalisation) x input lengths")),
  ("call-routes", Kind(gen_routes, run_routes, chunk=1,
                       rule="each function with every documented parameter set: all positional / all keyword / every split must agree")),
  ("long", Kind(gen_long, run_long, chunk=2, rule="filter shapes (incl. delays 17 and 25) x input lengths 64, 65, 128, 129, 300 (1500) x input kind, exact")),
  ("alive-together", Kind(gen_alive, run_alive, chunk=4, rule="two runs (same object / equal filter / other filter of the same shape) consumed alternately")),
  ("param-types", Kind(gen_types, run_types, chunk=1,
                       rule="structural integer parameters given as integral float / Fraction / bool: same result wherever the type is accepted")),
])
