"""
C06 - Time-varying coefficients are sampled once per output sample.

E1: every placement of {absent, constant, 1, finite stream, periodic stream,
constant stream} on the coefficients of a filter of bounded order (including
the leading denominator coefficient) is built with the real filter classes
(dict constructor and Stream*z**-k expressions), run on symbolic input, and
compared with the time-varying recurrence evaluated on coefficient sequences;
every coefficient stream is a counting source, so the number of reads per
output is observed; sums / products / scalings of such filters are compared
with element-by-element arithmetic on coefficient sequences.
"""
from collections import OrderedDict
from fractions import Fraction as F
import itertools
from ..runner import Kind, R, bad
from ..exact import Q, Sym, sym, syms, NonLinear
from ..sources import CountingSource

from audiolazy import ZFilter, z, Stream

PROPERTY = "C06"
LEVEL = "exploration"
RULE = ("all placements of coefficient kinds on b0..b2, a0..a2 within the tier's kind sets x two "
        "construction routes, symbolic input of 6 samples; all (op, f, g) over a pool of "
        "stream-bearing filters; non-trivial: at least one coefficient is a Stream")
ASSUMPTIONS = [
  "stream coefficient values are exact (Q) and vary with time (prime + n), constants are plain ints",
  "a filter object carrying Streams is consumed by its use: in the shapes/sparse/algebra kinds it is called once; "
  "the blockwise kind calls one object on two consecutive blocks and demands that the second call goes on with "
  "the coefficient values after those the first call read (one read per output sample, the statement's accounting)",
  "sums are checked where the result's coefficient sequences are unambiguous: different "
  "denominators (cross-multiplication) or both denominators equal to 1",
]

PR = [2, 3, 5, 7, 11, 13]
NX = 6


def bounds(run):
  return {"kinds_b": KB, "kinds_b2_a2": run.pick(KSMALL, KB), "kinds_a0": KA0,
          "routes": ["dict", "expr"], "input_samples": NX,
          "algebra_pool": len(POOL), "ops": OPS}


KB = ["A", "C", "U", "F0", "F2", "F5", "P", "K"]
KSMALL = ["A", "C", "F2", "P"]
KA0 = ["C", "U", "N", "F2", "F5", "P", "K"]


def seq_of(kind, p, T):
  """Coefficient sequence: list of Fractions (None after the end)."""
  if kind == "A":
    return None
  if kind == "C":
    return [F(PR[p])] * T
  if kind == "U":
    return [F(1)] * T
  if kind == "N":
    return [F(-1)] * T
  if kind == "K":
    return [F(PR[p])] * T
  if kind == "P":
    return [F(PR[p] + (n % 2)) for n in range(T)]
  L = int(kind[1:])
  return [F(PR[p] + n) if n < L else None for n in range(T)]


def real_of(kind, p, sources):
  """Coefficient object for the real filter; Streams wrap counting sources."""
  if kind == "A":
    return None
  if kind in "CUN":
    return {"C": PR[p], "U": 1, "N": -1}[kind]
  if kind == "K":
    src = CountingSource(itertools.repeat(Q(PR[p])), name="k%d" % p)
  elif kind == "P":
    src = CountingSource(itertools.cycle([Q(PR[p]), Q(PR[p] + 1)]), name="p%d" % p)
  else:
    L = int(kind[1:])
    src = CountingSource([Q(PR[p] + n) for n in range(L)], name="f%d" % p)
  sources.append(src)
  return Stream(src)


def tv_apply(num, den, x, zero=None):
  """Time-varying recurrence on coefficient sequences {delay: list}; samples before the input
  (x[n-k], y[n-k] for n < k) are the zero value."""
  y = []
  for n in range(len(x)):
    cs = [s[n] for s in list(num.values()) + list(den.values())]
    if any(c is None for c in cs):
      break
    acc = Sym(0)
    for k, s in num.items():
      if n - k >= 0:
        acc = acc + s[n] * x[n - k]
      elif zero is not None:
        acc = acc + s[n] * zero
    for k, s in den.items():
      if k >= 1 and n - k >= 0:
        acc = acc - s[n] * y[n - k]
      elif k >= 1 and zero is not None:
        acc = acc - s[n] * zero
    y.append(acc / den[0][n])
  return y


def build_filter(kinds, route, sources):
  bs = [real_of(k, i, sources) for i, k in enumerate(kinds[:3])]
  as_ = [real_of(k, 3 + i, sources) for i, k in enumerate(kinds[3:])]
  if route == "dict":
    return ZFilter({i: c for i, c in enumerate(bs) if c is not None},
                   {i: c for i, c in enumerate(as_) if c is not None})
  num = sum((c * z ** -i for i, c in enumerate(bs) if c is not None), 0 * z)
  den = sum((c * z ** -i for i, c in enumerate(as_) if c is not None), 0 * z)
  return num / den


def ref_polys(kinds, T):
  num = {i: seq_of(k, i, T) for i, k in enumerate(kinds[:3]) if k != "A"}
  den = {i: seq_of(k, 3 + i, T) for i, k in enumerate(kinds[3:]) if k != "A"}
  return num, den


def check_run(filt, sources, exp, x, key, nontriv, zero=None):
  """Consume the filter output step by step, checking values and pull counts."""
  try:
    out = filt(list(x), zero=Q(0) if zero is None else zero)
    for s in sources:
      if s.attempts:
        return bad(key + ":pulls-at-call", "calling the filter must not read a coefficient stream: it is read once "
                   "per output sample, and no output has been asked for yet",
                   {"after_outputs": 0, "pulls": 0}, {"source": s.name, "pulls": s.attempts}, nontriv)
    it = iter(out)
    got = []
    while True:
      try:
        v = next(it)
      except StopIteration:
        break
      got.append(Sym.lift(v))
      k = len(got)
      if k > len(exp) + 2:
        break
      for s in sources:
        if s.pulls != k and not (s.ended and s.pulls < k):
          return bad(key + ":pulls", "a coefficient stream must be read exactly once per output sample",
                     {"after_outputs": k, "pulls": k}, {"source": s.name, "pulls": s.pulls}, nontriv)
  except NonLinear as exc:
    return bad(key + ":nonlinear", "sample used non-linearly", None, str(exc), nontriv)
  except Exception as exc:
    return bad(key + ":exception:" + type(exc).__name__,
               "running the time-varying filter raised", {"outputs": len(exp)},
               {"exc": type(exc).__name__, "msg": str(exc)[:200]}, nontriv)
  if len(got) == len(exp) == len(x):
    # the output ended because the INPUT ended: no coefficient may have been read for a
    # sample that was never produced (it would be lost for a later block of the same signal)
    for s in sources:
      if s.pulls != len(got) and not (s.ended and s.pulls < len(got)):
        return bad(key + ":pulls-at-end", "when the input ends, every coefficient stream must have been "
                   "read exactly once per output sample (no read ahead)",
                   {"outputs": len(got), "pulls": len(got)}, {"source": s.name, "pulls": s.pulls}, nontriv)
  if len(got) != len(exp):
    return bad(key + ":length", "output must end when the input or any coefficient stream ends",
               len(exp), len(got), nontriv)
  for n, (g, e) in enumerate(zip(got, exp)):
    if g is None or not (g == e):
      return bad(key + ":value", "output differs from the time-varying recurrence "
                 "a0[n]y[n] = sum b_k[n]x[n-k] - sum a_k[n]y[n-k]", {"n": n, "y": e}, {"y": g}, nontriv)
  return None


def gen_shapes(run):
  k2 = run.pick(KSMALL, KB)
  for a0 in run.rot(KA0):
    for b0 in KB:
      for b1 in KB:
        for b2 in k2:
          for a1 in KB:
            for a2 in k2:
              kinds = [b0, b1, b2, a0, a1, a2]
              nstream = sum(1 for k in kinds if k[0] in "FPK")
              route = "dict" if (hash((b0, b1, a1)) + len(a0)) % 2 else "expr"
              yield (kinds, route)
              if nstream and b2 == "A" and a2 == "A":
                yield (kinds, "expr" if route == "dict" else "dict")


def run_shape(case):
  kinds, route = case
  nstream = sum(1 for k in kinds if k[0] in "FPK")
  x = syms("x", NX)
  num, den = ref_polys(kinds, NX + 2)
  if not num and list(den) == [0]:
    # degenerate: no numerator term and no feedback - the library reduces 0/a0[n] to the
    # all-zero filter without looking at a0 (recorded in DESIGN.md as an observation; a
    # filter without any term is C04's special case, not a time-varying shape)
    return R(None, False, "degenerate-zero-filter")
  # the zero value (what stands for the samples before the input) alternates between 0 and others
  zsel = (len(kinds[0]) + len(kinds[1]) + len(kinds[3]) + len(kinds[4]) + (route == "dict")) % 3
  zero = [None, Q(3), sym("zr")][zsel]
  exp = tv_apply(num, den, x, zero)
  sources = []
  try:
    filt = build_filter(kinds, route, sources)
  except Exception as exc:
    return bad("tv:build:" + type(exc).__name__, "building the filter raised", None, str(exc)[:200], nstream > 0)
  v = check_run(filt, sources, exp, x, "tv", nstream > 0, zero)
  if v is not None:
    return v
  return R(None, nstream > 0, (nstream, len(exp)))


# ---------------------------------- stream coefficients on sparse high delays
HIGH = [0, 1, 2, 9, 10, 11, 12]


def gen_sparse(run):
  """Two or three stream coefficients on delays of one and two digits."""
  for side in ("num", "den", "both"):
    for d1 in HIGH:
      for d2 in HIGH:
        if d2 <= d1:
          continue
        for kind in ("F5", "P"):
          if side != "num" and max(d1, 1) == d2:
            continue
          yield (side, d1, d2, kind)
  # long delay lines (beyond 64 taps of memory): finite and periodic coefficient streams
  for side in ("num", "den", "both"):
    for d1, d2 in ((0, 64), (1, 65), (2, 130), (64, 65), (65, 200)):
      for kind in ("F5", "P"):
        yield (side, d1, d2, kind)


def run_sparse(case):
  side, d1, d2, kind = case
  N = 30 if d2 < 20 else d2 + 40
  x = syms("x", N)
  T = N + 2
  sources = []
  def stream(p, salt):
    vals = [F(PR[p % 6] + salt + (n if kind == "F5" else n % 3)) for n in range(N if kind == "P" else 20)]
    src = CountingSource([Q(v) for v in vals], name="s%d" % p)
    sources.append(src)
    return Stream(src), vals + [None] * (T - len(vals))
  num, den, rnum, rden = {}, {0: 1}, {}, {0: [F(1)] * T}
  if side in ("num", "both"):
    for p, d in enumerate((d1, d2)):
      st, vals = stream(p, 0)
      num[d], rnum[d] = st, vals
  else:
    num[0], rnum[0] = 1, [F(1)] * T
  if side in ("den", "both"):
    for p, d in enumerate((max(d1, 1), d2)):
      st, vals = stream(p + 2, 20)
      den[d], rden[d] = st, vals
  try:
    filt = ZFilter(num, den)
  except Exception as exc:
    return bad("tv:build:" + type(exc).__name__, "building the filter raised", None, str(exc)[:200])
  exp = tv_apply(rnum, rden, x)
  v = check_run(filt, sources, exp, x, "tv-sparse", True)
  if v is not None:
    return v
  return R(None, True, (side, d2 >= 10))


# --------------------------------------------------------------- algebra
# pool of stream-bearing (and constant) filters: kinds for [b0,b1,b2,a0,a1,a2]
POOL = [
  ["P", "A", "A", "U", "A", "A"], ["F5", "C", "A", "U", "A", "A"], ["K", "P", "A", "U", "A", "A"],
  ["C", "F5", "A", "U", "A", "A"], ["U", "A", "P", "U", "A", "A"], ["C", "C", "A", "U", "A", "A"],
  ["U", "A", "A", "U", "P", "A"], ["P", "A", "A", "U", "C", "A"], ["C", "A", "A", "C", "F5", "A"],
  ["K", "A", "A", "U", "A", "K"], ["F2", "U", "A", "U", "A", "A"], ["U", "A", "A", "P", "A", "A"],
]
OPS = ["add", "sub", "mul", "scale", "scale-stream", "square", "stream-times-sum", "div"]
# quotients: dividends / divisors whose lowest term is delayed (the quotient stays causal when the
# dividend is delayed at least as much: the common delay cancels) and one-term divisors
DIVIDENDS = [["A", "U", "C", "U", "A", "A"], ["A", "P", "C", "U", "A", "A"], ["A", "A", "U", "U", "C", "A"],
             ["A", "C", "U", "U", "A", "P"]]
DIVISORS = [["A", "P", "A", "U", "A", "A"], ["A", "A", "F5", "U", "A", "A"], ["A", "K", "P", "U", "A", "A"],
            ["A", "C", "A", "U", "A", "A"], ["A", "P", "A", "U", "C", "A"], ["A", "U", "A", "P", "A", "A"]]


def sadd(a, b):
  return [None if (u is None or v is None) else u + v for u, v in zip(a, b)]


def smul(a, b):
  return [None if (u is None or v is None) else u * v for u, v in zip(a, b)]


def padd(p, q):
  out = dict(p)
  for k, s in q.items():
    out[k] = sadd(out[k], s) if k in out else s
  return out


def pmul(p, q):
  out = {}
  for k1, s1 in p.items():
    for k2, s2 in q.items():
      t = smul(s1, s2)
      out[k1 + k2] = sadd(out[k1 + k2], t) if k1 + k2 in out else t
  return out


def pneg(p):
  return {k: [None if v is None else -v for v in s] for k, s in p.items()}


def shift_primes(kinds, off):
  """Second operand uses other primes so that f and g are distinguishable."""
  return kinds


def gen_cancel(run):
  """Products / quotients in which a CONSTANT polynomial of one operand equals one of the other
  (candidates for an LTI-style cancellation, which is not valid with time-varying coefficients)."""
  for which in ("f*g", "g*f", "f/g-equal-den", "f/g-equal-num"):
    for const in ("half", "two-term", "delay"):
      for kind in ("P", "F5"):
        yield (which, const, kind)


def run_cancel(case):
  which, const, kind = case
  T = NX + 2
  x = syms("x", NX)
  one = [F(1)] * T
  cpoly = {"half": {0: 1, 1: -0.5}, "two-term": {0: 2, 1: 1, 2: 0.25}, "delay": {0: 1, 2: 3}}[const]
  cref = {k: [F(v)] * T for k, v in cpoly.items()}
  sources = []
  def st(p, salt):
    L = T if kind == "P" else 5
    vals = [F(PR[p] + salt + (n % 3)) for n in range(L)]
    src = CountingSource([Q(v) for v in vals], name="s%d" % p)
    sources.append(src)
    return Stream(src), vals + [None] * (T - L)
  s1, r1 = st(0, 0)
  s2, r2 = st(1, 10)
  if which in ("f*g", "g*f"):
    f = ZFilter(dict(cpoly), {0: 1, 1: s1})          # C / (1 + s1 z^-1)
    g = ZFilter({0: s2}, dict(cpoly))                # s2 / C
    h = f * g if which == "f*g" else g * f
    num, den = pmul(cref, {0: r2}), pmul({0: one, 1: r1}, cref)
  elif which == "f/g-equal-den":
    f = ZFilter({0: s1, 1: 1}, dict(cpoly))          # (s1 + z^-1) / C
    g = ZFilter({0: 1, 1: s2}, dict(cpoly))          # (1 + s2 z^-1) / C
    h = f / g
    num, den = pmul({0: r1, 1: one}, cref), pmul(cref, {0: one, 1: r2})
  else:
    f = ZFilter(dict(cpoly), {0: 1, 1: s1})
    g = ZFilter(dict(cpoly), {0: 1, 2: s2})
    h = f / g
    num, den = pmul(cref, {0: one, 2: r2}), pmul({0: one, 1: r1}, cref)
  exp = tv_apply(num, den, x)
  v = check_run(h, sources, exp, x, "tv-cancel:" + which, True)
  if v is not None:
    return v
  return R(None, True, (which, const))


def gen_algebra(run):
  for op in run.rot(OPS):
    for i, f in enumerate(POOL):
      if op in ("scale", "scale-stream", "square", "stream-times-sum"):
        yield (op, f, None)
        continue
      for g in POOL + (DIVISORS if op == "div" else []):
        yield (op, f, g)
    if op == "div":
      for f in DIVIDENDS:
        for g in POOL + DIVISORS:
          yield (op, f, g)


def run_algebra(case):
  op, fk, gk = case
  T = NX + 2
  x = syms("x", NX)
  sources = []
  fn, fd = ref_polys(fk, T)
  try:
    f = build_filter(fk, "dict", sources)
    if gk is not None:
      # g takes its stream values from a shifted time base so that it differs from f
      gn, gd = ref_polys(gk, T)
      gn = {k: [None if v is None else v + 100 for v in s] if gk[k][0] in "FPK" else s for k, s in gn.items()}
      gd = {k: [None if v is None else v + 100 for v in s] if gk[3 + k][0] in "FPK" else s for k, s in gd.items()}
      gsrc = []
      g0 = build_filter(gk, "dict", gsrc)
      # rebuild g with +100 on stream values (constants unchanged)
      gs2 = []
      def re(kind, p):
        c = real_of(kind, p, gs2)
        if isinstance(c, Stream):
          src = gs2[-1]
          inner = src._it
          src._it = (v + 100 for v in inner)
        return c
      bs = [re(k, i) for i, k in enumerate(gk[:3])]
      as_ = [re(k, 3 + i) for i, k in enumerate(gk[3:])]
      g = ZFilter({i: c for i, c in enumerate(bs) if c is not None},
                  {i: c for i, c in enumerate(as_) if c is not None})
      sources += gs2
    one = {0: [F(1)] * T}
    if op == "add" or op == "sub":
      if fd == gd and fd != one and not any(k[0] in "FPK" for k in fk[3:]):
        return R(None, False, "skipped-equal-constant-denominators")
      if op == "sub":
        gn = pneg(gn)
      if fd == one and gd == one:
        num, den = padd(fn, gn), one
      else:
        num, den = padd(pmul(fn, gd), pmul(gn, fd)), pmul(fd, gd)
      h = (f + g) if op == "add" else (f - g)
    elif op == "mul":
      num, den = pmul(fn, gn), pmul(fd, gd)
      h = f * g
    elif op == "div":
      num, den = pmul(fn, gd), pmul(fd, gn)
      k0 = min(den)
      if min(num) < k0:
        return R(None, False, "skipped-non-causal-quotient")
      if any(v == 0 for v in den[k0] if v is not None):
        return R(None, False, "skipped-zero-leading-coefficient")
      num = {k - k0: v for k, v in num.items()}
      den = {k - k0: v for k, v in den.items()}
      h = f / g
    elif op == "scale":
      num, den = {k: [None if v is None else 3 * v for v in s] for k, s in fn.items()}, fd
      h = 3 * f
    elif op == "scale-stream":
      src = CountingSource([Q(n + 2, 3) for n in range(NX + 1)], name="scale")
      sources.append(src)
      sc = [F(n + 2, 3) if n < NX + 1 else None for n in range(T)]
      num, den = {k: smul(s, sc) for k, s in fn.items()}, fd
      h = Stream(src) * f
    elif op == "square":
      num, den = pmul(fn, fn), pmul(fd, fd)
      h = f * f.copy()
    elif op == "stream-times-sum":
      # one stream object feeding several product terms: s * (f + z**-1)
      src = CountingSource(itertools.cycle([Q(2), Q(5), Q(-1)]), name="mult")
      sources.append(src)
      sc = [F([2, 5, -1][n % 3]) for n in range(T)]
      if fd != one:
        inner_num, inner_den = padd(fn, pmul({1: [F(1)] * T}, fd)), fd
      else:
        inner_num, inner_den = padd(fn, {1: [F(1)] * T}), one
      num, den = {k: smul(s, sc) for k, s in inner_num.items()}, inner_den
      h = Stream(src) * (f + z ** -1)
    else:
      raise ValueError(op)
  except Exception as exc:
    return bad("tv-algebra:%s:build:%s" % (op, type(exc).__name__), "filter arithmetic raised",
               None, str(exc)[:200])
  exp = tv_apply(num, den, x)
  v = check_run(h, sources, exp, x, "tv-algebra:" + op, True)
  if v is not None:
    return v
  return R(None, True, (op, len(exp)))


# ------------------------------------------- a constant stream is the constant
def gen_conststream(run):
  for b in itertools.product([0, 1, -1, 2], repeat=2):
    for a1 in (0, 1, -2):
      for a0 in (1, 2):
        for mask in range(1, 16):
          yield (list(b), a0, a1, mask)


def run_conststream(case):
  b, a0, a1, mask = case
  x = syms("x", NX)
  coefs = [b[0], b[1], a0, a1]
  if a0 == 0:
    return R(None, False)
  ref = list(ZFilter([b[0], b[1]], [a0, a1])(list(x), zero=Q(0)))
  sc = [Stream(Q(c)) if (mask >> i) & 1 else c for i, c in enumerate(coefs)]
  try:
    filt = ZFilter({0: sc[0], 1: sc[1]}, {0: sc[2], 1: sc[3]})
    got = list(filt(list(x), zero=Q(0)))
  except Exception as exc:
    return bad("tv:conststream:exception:" + type(exc).__name__, "constant-stream filter raised", None, str(exc)[:200])
  if len(got) != len(ref) or any(not (Sym.lift(g) == Sym.lift(r)) for g, r in zip(got, ref)):
    return bad("tv:conststream", "a constant stream coefficient must behave like the constant",
               ref[:4], got[:4])
  return R(None, True, mask)


# ------------------------------------------- block-by-block use of one filter object
def gen_blockwise(run):
  for a0 in KA0:
    for b0 in KSMALL:
      for b1 in ("A", "C", "F5", "P", "K"):
        for a1 in ("A", "C", "F5", "P"):
          kinds = [b0, b1, "A", a0, a1, "A"]
          if not any(k[0] in "FPK" for k in kinds):
            continue
          for route in ("dict", "expr"):
            for n1 in (1, 2, 3):
              yield (kinds, route, n1)


def run_blockwise(case):
  """One stream-bearing filter object applied to a first block (whose end ends the output) and then
  to a second block: every output sample of either call reads each coefficient stream exactly once,
  so the second call goes on with the values after those the first call used."""
  kinds, route, n1 = case
  n2 = 4
  num, den = ref_polys(kinds, n1 + n2 + 2)
  if not num and list(den) == [0]:
    return R(None, False, "degenerate-zero-filter")
  x1, x2 = syms("x", n1), syms("u", n2)
  exp1 = tv_apply(num, den, x1)
  sources = []
  try:
    filt = build_filter(kinds, route, sources)
    got1 = [Sym.lift(v) for v in filt(list(x1), zero=Q(0))]
  except Exception as exc:
    return bad("tv-blocks:exception:" + type(exc).__name__, "first block raised", None, str(exc)[:200], True)
  if len(got1) != len(exp1) or any(g is None or not (g == e) for g, e in zip(got1, exp1)):
    return bad("tv-blocks:first", "first block differs from the time-varying recurrence", exp1, got1, True)
  if len(exp1) < n1:
    return R(None, False, "coefficient stream ended in the first block")
  used = [s.pulls for s in sources]
  if any(u != n1 for u in used):
    return bad("tv-blocks:pulls", "after a first block of n samples every coefficient stream must have been read n times",
               n1, used, True)
  shift = lambda d: {k: s[n1:] for k, s in d.items()}
  exp2 = tv_apply(shift(num), shift(den), x2)
  try:
    got2 = [Sym.lift(v) for v in filt(list(x2), zero=Q(0))]
  except Exception as exc:
    return bad("tv-blocks:exception:" + type(exc).__name__, "second block raised", None, str(exc)[:200], True)
  pulls = [s.pulls for s in sources]
  if len(got2) != len(exp2) or any(g is None or not (g == e) for g, e in zip(got2, exp2)):
    return bad("tv-blocks:second", "the second call of the same filter object must use the coefficient values that "
               "follow those read by the first call (one read per output sample)", exp2, got2, True)
  for s_, p_ in zip(sources, pulls):
    want = n1 + len(exp2)
    if len(exp2) < n2 and p_ == want + 1:
      continue      # the output ended because ANOTHER coefficient stream ended: this one was asked first
    if p_ != want and not (s_.ended and p_ < want):
      return bad("tv-blocks:pulls", "every output sample of either call reads each coefficient stream exactly once",
                 {"outputs": want, "pulls": want}, {"source": s_.name, "pulls": p_}, True)
  return R(None, True, (len(exp2), route))


# ---------------------------------------------------------------- long inputs
def gen_long(run):
  for kinds in (["P", "K", "A", "P", "P", "A"], ["K", "P", "P", "C", "A", "P"], ["P", "A", "A", "P", "A", "A"],
                ["C", "P", "A", "K", "P", "K"], ["P", "P", "P", "P", "P", "P"]):
    for route in ("dict", "expr"):
      for n in (64, 65, 130, run.pick(300, 1000)):
        yield (kinds, route, n)


def run_long(case):
  """Hundreds of samples with periodic / constant coefficient streams: values and one read per output."""
  kinds, route, n = case
  x = [Q(v) for v in [((7 * i * i + 3 * i) % 11) - 5 for i in range(n)]]
  num, den = ref_polys(kinds, n + 2)
  exp = tv_apply(num, den, [Sym.lift(v) for v in x])
  sources = []
  try:
    filt = build_filter(kinds, route, sources)
  except Exception as exc:
    return bad("tv-long:build:" + type(exc).__name__, "building the filter raised", None, str(exc)[:200], True)
  v = check_run(filt, sources, exp, x, "tv-long", True)
  if v is not None:
    return v
  return R(None, True, (n > 200, route))


# ----------------------------------- one coefficient hub (thub) used in several filters
from audiolazy import thub as _thub

HUB_USES = OrderedDict([
  # name -> (builder from the hub k, reference {delay: f(c)} on numerator, on denominator)
  ("k*(1+z^-1)", (lambda k: k * (1 + z ** -1), {0: lambda c: c, 1: lambda c: c}, {0: lambda c: 1})),
  ("(1+z^-1)*k", (lambda k: (1 + z ** -1) * k, {0: lambda c: c, 1: lambda c: c}, {0: lambda c: 1})),
  ("1-k*z^-1", (lambda k: 1 - k * z ** -1, {0: lambda c: 1, 1: lambda c: -c}, {0: lambda c: 1})),
  ("k*(1+z^-1+z^-2)", (lambda k: k * (1 + z ** -1 + z ** -2), {0: lambda c: c, 1: lambda c: c, 2: lambda c: c}, {0: lambda c: 1})),
  ("k*z^-2", (lambda k: k * z ** -2, {2: lambda c: c}, {0: lambda c: 1})),
  ("1/(1-k*z^-1)", (lambda k: 1 / (1 - k * z ** -1), {0: lambda c: 1}, {0: lambda c: 1, 1: lambda c: -c})),
  ("k+z^-1", (lambda k: k + z ** -1, {0: lambda c: c, 1: lambda c: 1}, {0: lambda c: 1})),
  # the hub handed to the constructor (list / dict): the filter holds the hub and takes ONE use per call
  ("ZFilter([1,k])", (lambda k: ZFilter([1, k]), {0: lambda c: 1, 1: lambda c: c}, {0: lambda c: 1})),
  ("ZFilter({0:k,2:1})", (lambda k: ZFilter({0: k, 2: 1}), {0: lambda c: c, 2: lambda c: 1}, {0: lambda c: 1})),
  ("ZFilter([1],[1,k])", (lambda k: ZFilter([1], [1, k]), {0: lambda c: 1}, {0: lambda c: 1, 1: lambda c: c})),
])


def gen_hub(run):
  names = list(HUB_USES)
  for n in (2, 3):
    for uses in itertools.permutations(names, n):
      yield (list(uses), "same-order")
      if n == 2:
        yield (list(uses), "interleaved")


def run_hub(case):
  """k = thub(coefficients, n) handed to n different filter expressions: every expression sees the whole
  coefficient sequence from its start (the hub promises n independent uses), whatever the number of
  terms of the other operand, and the source is read once per output sample of the furthest filter."""
  uses, how = case
  N = 7
  cvals = [F(2) + F(n, 3) for n in range(N + 2)]
  src = CountingSource([Q(v) for v in cvals], name="hub-source")
  k = _thub(Stream(src), len(uses))
  x = syms("x", N)
  try:
    filts = [HUB_USES[u][0](k) for u in uses]
  except Exception as exc:
    return bad("tv-hub:build:" + type(exc).__name__, "building filters from one coefficient hub raised (it was created "
               "with as many uses as there are expressions)", {"uses": uses}, str(exc)[:200], True)
  try:
    outs = [f(list(x), zero=Q(0)) for f in filts]
    if how == "interleaved":
      its = [iter(o) for o in outs]
      gots = [[] for _ in its]
      for _ in range(N):
        for g, it_ in zip(gots, its):
          g.append(Sym.lift(next(it_)))
    else:
      gots = [[Sym.lift(v) for v in o] for o in outs]
  except Exception as exc:
    return bad("tv-hub:exception:" + type(exc).__name__, "running the filters raised", {"uses": uses}, str(exc)[:200], True)
  for u, got in zip(uses, gots):
    _, rn, rd = HUB_USES[u]
    num = {d: [fn(c) if True else None for c in cvals] for d, fn in rn.items()}
    den = {d: [fn(c) for c in cvals] for d, fn in rd.items()}
    num = {d: [F(v) for v in s_] for d, s_ in num.items()}
    den = {d: [F(v) for v in s_] for d, s_ in den.items()}
    exp = tv_apply(num, den, x)
    if len(got) != len(exp) or any(g is None or not (g == e) for g, e in zip(got, exp)):
      return bad("tv-hub:value", "%s: a filter built from one use of a coefficient hub must see the whole coefficient "
                 "sequence" % u, {"uses": uses, "y": exp[:4]}, got[:4], True)
  if src.pulls > N + 1:
    return bad("tv-hub:pulls", "the hub's source must be read once per output sample", N, src.pulls, True)
  return R(None, True, (len(uses), how))



# ------------------------- one hub standing in several coefficient positions of one filter
TWICE = OrderedDict([
  # name -> (builder from the hub k, numerator reference, denominator reference, uses one call takes)
  ("allpass [k,1]/[1,k]", (lambda k: ZFilter([k, 1], [1, k]), {0: lambda c: c, 1: lambda c: 1}, {0: lambda c: 1, 1: lambda c: c}, 2)),
  ("[k,0,k]", (lambda k: ZFilter([k, 0, k]), {0: lambda c: c, 2: lambda c: c}, {0: lambda c: 1}, 2)),
  ("{0:k,1:1}/{0:1,2:k}", (lambda k: ZFilter({0: k, 1: 1}, {0: 1, 2: k}), {0: lambda c: c, 1: lambda c: 1}, {0: lambda c: 1, 2: lambda c: c}, 2)),
  ("[k,k,k]/[1,k]", (lambda k: ZFilter([k, k, k], [1, k]), {0: lambda c: c, 1: lambda c: c, 2: lambda c: c}, {0: lambda c: 1, 1: lambda c: c}, 4)),
])


def gen_twice(run):
  for name in TWICE:
    for how in ("direct", "copy", "copy-of-copy", "copy-then-original", "original-then-copy"):
      yield (name, how)


def run_twice(case):
  """The same hub object in several coefficient positions (a time-varying all-pass): the filter, and any copy
  of it, uses the n-th coefficient value in every one of those positions at output n; one read per output."""
  name, how = case
  build, rn, rd, per_call = TWICE[name]
  N = 7
  cvals = [F(2) + F(n, 3) for n in range(N + 2)]
  src = CountingSource([Q(v) for v in cvals], name="hub-source")
  runs = {"direct": 1, "copy": 1, "copy-of-copy": 1}.get(how, 2)
  k = _thub(Stream(src), per_call * runs)
  x = syms("x", N)
  try:
    f = build(k)
    if how == "direct": seq = [f]
    elif how == "copy": seq = [f.copy()]
    elif how == "copy-of-copy": seq = [f.copy().copy()]
    elif how == "copy-then-original": seq = [f.copy(), f]
    else:
      g = f.copy()
      seq = [f, g]
    gots = [[Sym.lift(v) for v in h(list(x), zero=Q(0))] for h in seq]
  except Exception as exc:
    return bad("tv-twice:exception:" + type(exc).__name__, "%s (%s) raised" % (name, how), None, str(exc)[:200], True)
  num = {d: [F(fn(c)) for c in cvals] for d, fn in rn.items()}
  den = {d: [F(fn(c)) for c in cvals] for d, fn in rd.items()}
  exp = tv_apply(num, den, x)
  for got in gots:
    if len(got) != len(exp) or any(g_ is None or not (g_ == e_) for g_, e_ in zip(got, exp)):
      return bad("tv-twice:value", "%s (%s): every position holding the hub uses the n-th coefficient value at output n"
                 % (name, how), exp[:4], got[:4], True)
  if src.pulls > N + 1:
    return bad("tv-twice:pulls", "the hub's source must be read once per output sample", N, src.pulls, True)
  return R(None, True, (name, how))

# ------------------------- one filter object holding a hub, called once per use ("stereo")
def gen_stereo(run):
  for u in HUB_USES:
    if u.startswith("ZFilter("):
      for ncalls in (2, 3):
        for how in ("same-order", "interleaved"):
          yield (u, ncalls, how)


def run_stereo(case):
  """f = ZFilter([..., k, ...]) with k = thub(coefficients, n): the n calls of the ONE filter object each take
  one use of the hub, so every call sees the whole coefficient sequence from its start."""
  u, ncalls, how = case
  N = 6
  cvals = [F(3) - F(n, 2) for n in range(N + 2)]
  src = CountingSource([Q(v) for v in cvals], name="hub-source")
  k = _thub(Stream(src), ncalls)
  build, rn, rd = HUB_USES[u]
  xs = [syms("x%d_" % c, N) for c in range(ncalls)]
  try:
    f = build(k)
    outs = [f(list(x), zero=Q(0)) for x in xs]
    if how == "interleaved":
      its = [iter(o) for o in outs]
      gots = [[] for _ in its]
      for _ in range(N):
        for g, it_ in zip(gots, its):
          g.append(Sym.lift(next(it_)))
    else:
      gots = [[Sym.lift(v) for v in o] for o in outs]
  except Exception as exc:
    return bad("tv-stereo:exception:" + type(exc).__name__, "calling one hub-bearing filter once per use raised",
               {"filter": u, "calls": ncalls}, str(exc)[:200], True)
  num = {d: [F(fn(c)) for c in cvals] for d, fn in rn.items()}
  den = {d: [F(fn(c)) for c in cvals] for d, fn in rd.items()}
  for ci, (x, got) in enumerate(zip(xs, gots)):
    exp = tv_apply(num, den, x)
    if len(got) != len(exp) or any(g is None or not (g == e) for g, e in zip(got, exp)):
      return bad("tv-stereo:value", "call %d of %d of one filter built on a coefficient hub must see the whole "
                 "coefficient sequence" % (ci + 1, ncalls), {"filter": u, "y": exp[:4]}, got[:4], True)
  if src.pulls > N + 1:
    return bad("tv-stereo:pulls", "the hub's source must be read once per output sample", N, src.pulls, True)
  return R(None, True, (u, ncalls, how))


# ------------------------------------- sums of filters that share one denominator object
def gen_shared_den(run):
  for dk in ("P", "F5", "K"):
    for op in ("f1+f2", "f1-f2", "g*2-g/2", "g+g", "f1+f2+f1"):
      for route in ("list", "dict"):
        yield (dk, op, route)


def run_shared_den(case):
  """Two filters built on the SAME denominator list / dict (the same Stream object inside): their sum keeps
  that denominator - (b1 +- b2) / den - and the coefficient stream is still read once per output sample."""
  dk, op, route = case
  N = 6
  sources = []
  a1 = real_of(dk, 4, sources)
  a1seq = seq_of(dk, 4, N + 2)
  den = [1, a1] if route == "list" else {0: 1, 1: a1}
  b1, b2 = ([1, 2], [0, 0, 3]) if route == "list" else ({0: 1, 1: 2}, {2: 3})
  x = syms("x", N)
  one = [F(1)] * (N + 2)
  try:
    f1, f2 = ZFilter(b1, den), ZFilter(b2, den)
    if op == "f1+f2": h, num = f1 + f2, {0: 1, 1: 2, 2: 3}
    elif op == "f1-f2": h, num = f1 - f2, {0: 1, 1: 2, 2: -3}
    elif op == "g*2-g/2": h, num = f1 * 2 - f1 * F(1, 2), {0: F(3, 2), 1: 3}
    elif op == "g+g": h, num = f1 + f1, {0: 2, 1: 4}
    else: h, num = f1 + f2 + f1, {0: 2, 1: 4, 2: 3}
  except Exception as exc:
    return bad("tv-shared-den:build:" + type(exc).__name__, "adding filters that share a denominator raised", None, str(exc)[:200], True)
  rnum = {k_: [F(v) * o for o in one] for k_, v in num.items()}
  rden = {0: one, 1: a1seq}
  exp = tv_apply(rnum, rden, x)
  v = check_run(h, sources, exp, x, "tv-shared-den", True)
  if v is not None:
    return v
  return R(None, True, (dk, op))


# ------------------------------------------- a ControlStream as a coefficient
def gen_control(run):
  for expr in ("f", "f+g", "g-f", "f*f", "f**2", "f.copy()", "f+f", "2*f-g"):
    for where in ("a1", "b0", "b1"):
      for sched in (0, 1, 2):
        yield (expr, where, sched)


def run_control(case):
  """A coefficient given as a ControlStream: output n uses the value the control holds when output n is
  asked for - in EVERY place the algebra put (a copy of) that coefficient."""
  from audiolazy import ControlStream
  expr, where, sched = case
  N = 7
  vals = [[F(2), F(2), F(5), F(5), F(-1), F(-1), F(3), F(3), F(3)],
          [F(1, 2)] * 3 + [F(-3)] * 6,
          [F(k + 1) for k in range(9)]][sched]
  cs = ControlStream(Q(vals[0]))
  one = [F(1)] * (N + 2)
  c = list(vals)
  if where == "a1":
    f = ZFilter([1], [1, cs]); fn, fd = {0: one}, {0: one, 1: c}
  elif where == "b0":
    f = ZFilter([cs, 1], [1]); fn, fd = {0: c, 1: one}, {0: one}
  else:
    f = ZFilter([1, cs], [1, F(1, 2)]); fn, fd = {0: one, 1: c}, {0: one, 1: [F(1, 2)] * (N + 2)}
  g = ZFilter([1, 1], [1, 0, F(1, 4)]); gn, gd = {0: one, 1: one}, {0: one, 2: [F(1, 4)] * (N + 2)}
  sc = lambda p_, k_: {d: [v * k_ for v in s_] for d, s_ in p_.items()}
  try:
    if expr == "f": h, num, den = f, fn, fd
    elif expr == "f+g": h, num, den = f + g, padd(pmul(fn, gd), pmul(gn, fd)), pmul(fd, gd)
    elif expr == "g-f": h, num, den = g - f, padd(pmul(gn, fd), pneg(pmul(fn, gd))), pmul(gd, fd)
    elif expr == "f*f": h, num, den = f * f.copy(), pmul(fn, fn), pmul(fd, fd)
    elif expr == "f**2": h, num, den = f ** 2, pmul(fn, fn), pmul(fd, fd)
    elif expr == "f.copy()": h, num, den = f.copy(), fn, fd
    elif expr == "f+f":      # f and its copy have different denominator objects: cross-multiplied, element by element
      h = f + f.copy()
      num, den = (padd(pmul(fn, fd), pmul(fn, fd)), pmul(fd, fd)) if where == "a1" else (sc(fn, 2), fd)
    else: h, num, den = 2 * f - g, padd(pmul(sc(fn, 2), gd), pneg(pmul(gn, fd))), pmul(fd, gd)
    x = syms("x", N)
    out = iter(h(list(x), zero=Q(0)))
    got = []
    for n in range(N):
      cs.value = Q(vals[n])              # the value in force when output n is asked for
      got.append(Sym.lift(next(out)))
  except Exception as exc:
    return bad("tv-control:exception:" + type(exc).__name__, "%s with a ControlStream coefficient raised" % expr, None, str(exc)[:200], True)
  exp = tv_apply(num, den, x)
  if len(got) != len(exp[:N]) or any(g_ is None or not (g_ == e_) for g_, e_ in zip(got, exp)):
    k = next((i for i, (g_, e_) in enumerate(zip(got, exp)) if g_ is None or not (g_ == e_)), -1)
    return bad("tv-control:value", "%s: output n must use, everywhere, the value the ControlStream coefficient (%s) holds "
               "when output n is asked for" % (expr, where), {"n": k, "y": exp[k] if k >= 0 else None, "values": vals[:N]},
               got[k] if k >= 0 else got, True)
  return R(None, True, (expr, where))


# ------------------------------------------- constructor arguments given bare
NUM_ARGS = ["stream", "control", "hub", "number", "list-stream", "dict-stream", "filter"]
DEN_ARGS = ["none", "number", "list", "list-stream", "dict-stream", "stream"]


def gen_constructor(run):
  for cls in ("ZFilter", "LinearFilter"):
    for na in NUM_ARGS:
      for da in DEN_ARGS:
        for route in ("positional", "keyword"):
          yield (cls, na, da, route)


def run_constructor(case):
  """ZFilter(numerator, denominator) with the documented argument forms, a coefficient Stream given bare
  (a lone Stream / ControlStream / hub stands for the coefficient b0[n] or a0[n]) or inside a list / dict."""
  cls_name, na, da, route = case
  from audiolazy import ControlStream, LinearFilter
  cls = {"ZFilter": ZFilter, "LinearFilter": LinearFilter}[cls_name]
  T = NX + 2
  x = syms("x", NX)
  sources = []
  def stream(p):
    src = CountingSource(itertools.cycle([Q(PR[p]), Q(PR[p] + 1)]), name="p%d" % p)
    sources.append(src)
    return Stream(src), [F(PR[p] + (n % 2)) for n in range(T)]
  one = [F(1)] * T
  try:
    if na == "stream":
      a, seq = stream(0); num = {0: seq}
    elif na == "control":
      a, num = ControlStream(Q(7)), {0: [F(7)] * T}
    elif na == "hub":
      st, seq = stream(0); a, num = _thub(st, 1), {0: seq}
    elif na == "number":
      a, num = 3, {0: [F(3)] * T}
    elif na == "list-stream":
      st, seq = stream(0); a, num = [2, st], {0: [F(2)] * T, 1: seq}
    elif na == "dict-stream":
      st, seq = stream(0); a, num = {1: st}, {1: seq}
    else:
      a, num = ZFilter([1, 2]), {0: one, 1: [F(2)] * T}
    if da == "none":
      b, den = None, {0: one}
    elif da == "number":
      b, den = 2, {0: [F(2)] * T}
    elif da == "list":
      b, den = [1, -3], {0: one, 1: [F(-3)] * T}
    elif da == "list-stream":
      st, seq = stream(3); b, den = [1, st], {0: one, 1: seq}
    elif da == "dict-stream":
      st, seq = stream(3); b, den = {0: 2, 2: st}, {0: [F(2)] * T, 2: seq}
    else:
      st, seq = stream(3); b, den = st, {0: seq}
    if na == "filter" and da != "none":
      if route == "keyword":
        return R(None, False, "filter-cast-with-denominator")
      # type cast with a denominator: numerator filter / denominator (documented as a division)
      return R(None, False, "filter-cast-with-denominator")
    if route == "positional":
      filt = cls(a) if b is None else cls(a, b)
    else:
      filt = cls(numerator=a) if b is None else cls(numerator=a, denominator=b)
  except Exception as exc:
    return bad("tv-constructor:build:" + type(exc).__name__, "%s(%s numerator, %s denominator) raised" % (cls_name, na, da),
               None, str(exc)[:200], True)
  exp = tv_apply(num, den, x)
  v = check_run(filt, sources, exp, x, "tv-constructor", True)
  if v is not None:
    return v
  return R(None, bool(sources) or na == "control", (na, da))


KINDS = OrderedDict([
  ("constructor", Kind(gen_constructor, run_constructor, chunk=8,
                       rule="constructor x numerator form (bare Stream / ControlStream / hub / number / list / dict / filter) x denominator form x positional / keyword")),
  ("shapes", Kind(gen_shapes, run_shape, chunk=300,
                  rule="coefficient kind placements x construction route; non-trivial: >=1 Stream coefficient")),
  ("sparse", Kind(gen_sparse, run_sparse, chunk=8, rule="stream coefficients on delays 0..2 and 9..12, 30 input samples")),
  ("blockwise", Kind(gen_blockwise, run_blockwise, chunk=20,
                     rule="one stream-bearing filter object applied to two consecutive blocks; values and pull counts")),
  ("hub-twice", Kind(gen_twice, run_twice, chunk=4, rule="one hub in several coefficient positions of one filter x direct / copy / copy of copy / copy and original")),
  ("stereo", Kind(gen_stereo, run_stereo, chunk=4, rule="one filter object holding a coefficient hub, called once per use")),
  ("shared-den", Kind(gen_shared_den, run_shared_den, chunk=4, rule="sums / differences of filters built on one denominator object")),
  ("cancel", Kind(gen_cancel, run_cancel, chunk=4,
                  rule="products / quotients whose operands share a constant polynomial, streams elsewhere")),
  ("algebra", Kind(gen_algebra, run_algebra, chunk=8, rule="(op, f, g) over the pool of stream-bearing filters")),
  ("conststream", Kind(gen_conststream, run_conststream, chunk=60,
                       rule="every subset of coefficients replaced by constant streams")),
  ("long", Kind(gen_long, run_long, chunk=1, timeout=300, rule="periodic / constant coefficient streams over 64, 65, 130, 300 (1000) samples")),
  ("hub", Kind(gen_hub, run_hub, chunk=20, rule="one thub of coefficients x ordered selections of 2 or 3 filter expressions x consumption order")),
  ("control-coefficient", Kind(gen_control, run_control, chunk=4, rule="filter expressions over one ControlStream coefficient x assignment schedules")),
])
