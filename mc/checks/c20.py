"""
C20 - Sample-wise analysis tools equal their defining formulas.

E1 over exact rationals: linear tools (moving averages, running sums) are run
on symbolic samples, which decides them for every numeric input of that
length; non-linear tools (amdf, envelopes, clip, zcross, unwrap) are run on
*all* sequences of bounded length over a small alphabet chosen to fall below,
inside, on and above every threshold, and compared with a direct evaluation of
the statement.
"""
from collections import OrderedDict
from fractions import Fraction as F
import itertools, math
from ..runner import Kind, R, bad
from ..exact import Q, Sym, sym, syms, NonLinear

from audiolazy import maverage, accumulate, amdf, envelope, clip, zcross, unwrap, lowpass, Stream

PROPERTY = "C20"
LEVEL = "exploration"
RULE = ("moving averages / running sums: every (strategy, size, zero kind, length) on symbolic input, "
        "plus one filter object applied to two signals consumed in interleaved order; non-linear "
        "tools: all sequences of length 0..L over {-2,-1,0,1/2,1,3} x every configuration. "
        "Non-trivial: the input is longer than the window / contains a sign change or a jump")
ASSUMPTIONS = [
  "moving-average strategies use the float 1./size: for sizes that are not powers of two they may differ "
  "from the exact mean (and from each other) by that single rounding; each coefficient is compared "
  "with the exact rational under a 4 ulp bound, sizes that are powers of two exactly",
  "sample values of the non-linear tools come from an alphabet hitting every comparison outcome; "
  "other magnitudes are not explored",
  "rms envelope: tolerance for the final square root only",
]

U = 2.0 ** -53
ALPHA = ["-2", "-1", "0", "1/2", "1", "3"]


def bounds(run):
  return {"alphabet": ALPHA, "length": "0..%d" % run.pick(6, 7), "maverage_sizes": "1..8",
          "symbolic_length": 10, "amdf": {"lags": [1, 2, 3], "sizes": [1, 2, 3], "length": "0..%d" % run.pick(5, 6)},
          "zcross": {"hysteresis": HYST, "first_sign": FSIGN}, "clip_limits": LIMITS, "unwrap": UNWRAP}


def seqs(maxlen):
  for n in range(0, maxlen + 1):
    for s in itertools.product(ALPHA, repeat=n):
      yield list(s)


def fq(v):
  return Q(v).f


# --------------------------------------------------------------- maverage
ZK = ["int0", "float0", "Q0", "Qhalf", "sym"]


def zero_of(k):
  return {"int0": 0, "float0": 0.0, "Q0": Q(0), "Qhalf": Q(1, 2), "sym": sym("zr")}[k]


def gen_maverage(run):
  for strat in ("deque", "recursive", "feedback", "fir"):
    for size in range(1, 9):
      for zk in ZK:
        for n in (0, 1, 3, 10):
          yield (strat, size, zk, n)


def close_form(g, e, exact):
  """Linear forms equal (exact) or coefficient-wise within 4 ulp."""
  g = Sym.lift(g)
  if g is None:
    return False
  if exact:
    return g == e
  d = g - e
  return abs(d.c) <= 4 * U * (1 + abs(e.c)) and all(abs(c) <= 4 * U for c in d.t.values())


def run_maverage(case):
  strat, size, zk, n = case
  x = syms("x", n)
  zero = zero_of(zk)
  pow2 = size & (size - 1) == 0
  try:
    filt = maverage[strat](size)
    out = filt(list(x), zero=zero) if zk != "float0" else filt(list(x))
    if not isinstance(out, Stream):
      return bad("maverage:type", "moving average must return a Stream", "Stream", type(out).__name__)
    got = list(out)
  except NonLinear as exc:
    return bad("maverage:nonlinear", "sample used non-linearly", None, str(exc))
  except Exception as exc:
    return bad("maverage:exception:" + type(exc).__name__, "moving average raised", None, str(exc)[:200])
  zs = Sym.lift(zero)
  exp = []
  for i in range(n):
    acc = Sym(0)
    for k in range(size):
      acc = acc + (x[i - k] if i - k >= 0 else zs)
    exp.append(acc / size)
  if len(got) != n:
    return bad("maverage:length", "one output per input", n, len(got))
  for i, (g, e) in enumerate(zip(got, exp)):
    if not close_form(g, e, pow2):
      return bad("maverage:value", "output is not the mean of the last `size` samples "
                 "(earlier samples = zero value)", {"n": i, "mean": e}, g)
  return R(None, n > size, (strat, pow2))


def gen_interleave(run):
  for strat in ("deque", "recursive", "fir", "amdf", "accumulate.z", "envelope.abs"):
    for size in (1, 2, 3, 4):
      for order in ("zip", "a-then-b-then-a", "b-first"):
        yield (strat, size, order)


def run_interleave(case):
  """One filter object applied to two signals whose outputs are consumed in
  interleaved order must give each signal its own moving average."""
  strat, size, order = case
  a = [Q(v) for v in (3, -1, 4, 1, -5, 9, 2, -6)]
  b = [Q(v) for v in (-2, 7, 1, -8, 2, 8, -1, 8)]
  def make():
    if strat == "amdf": return amdf(1, size)
    if strat == "accumulate.z": return accumulate.z
    if strat == "envelope.abs": return lambda s, zero=0.: envelope.abs(s, cutoff=.5 + size / 8.)
    return maverage[strat](size)
  kw = {} if strat in ("accumulate.z", "envelope.abs") else {"zero": Q(0)}
  ref_a, ref_b = list(make()(list(a), **kw)), list(make()(list(b), **kw))
  f = make()
  sa, sb = iter(f(list(a), **kw)), iter(f(list(b), **kw))
  ga, gb = [], []
  if order == "zip":
    for _ in range(len(a)):
      ga.append(next(sa)); gb.append(next(sb))
  elif order == "a-then-b-then-a":
    for _ in range(3): ga.append(next(sa))
    for _ in range(5): gb.append(next(sb))
    ga.extend(sa); gb.extend(sb)
  else:
    for _ in range(2): gb.append(next(sb))
    ga.extend(sa); gb.extend(sb)
  if ga != ref_a or gb != ref_b:
    return bad("reuse:interleaved", "one filter object applied to two signals: consuming the outputs in "
               "interleaved order changes the results (shared state between calls)",
               {"a": ref_a[:5], "b": ref_b[:5]}, {"a": ga[:5], "b": gb[:5]})
  return R(None, True, (strat, order))


# -------------------------------------------------------------- accumulate
def gen_accumulate(run):
  for strat in ("accumulate", "itertools", "func", "pure_python", "z"):
    for n in (0, 1, 2, 7):
      for src in ("list", "gen", "stream"):
        yield (strat, n, src)


def run_accumulate(case):
  strat, n, src = case
  x = syms("x", n)
  data = list(x) if src == "list" else ((v for v in x) if src == "gen" else Stream(list(x)))
  try:
    out = accumulate[strat](data)
    got = list(out)
  except Exception as exc:
    return bad("accumulate:%s:exception:%s" % (strat, type(exc).__name__),
               "accumulate raised (an empty input must give an empty stream)", [], str(exc)[:200])
  if not isinstance(out, Stream):
    return bad("accumulate:type", "accumulate must return a Stream", "Stream", type(out).__name__)
  exp, acc = [], Sym(0)
  for v in x:
    acc = acc + v
    exp.append(acc)
  if len(got) != n or any(Sym.lift(g) != e for g, e in zip(got, exp)):
    return bad("accumulate:value", "accumulate is not the running sum", exp, got)
  return R(None, n > 1, (strat, n))


# -------------------------------------------------------------------- amdf
def gen_amdf(run):
  L = run.pick(5, 6)
  for s in seqs(L):
    yield s


def run_amdf(case):
  x = [F(v) for v in case]
  n = len(x)
  for lag in (1, 2, 3):
    for size in (1, 2, 3):
      for zero in (F(0), F(1, 2)):
        if size == 3 and zero != 0:
          continue      # 1./3 is not exact: covered symbolically by the maverage kind
        try:
          got = list(amdf(lag, size)([Q(v) for v in x], zero=Q(zero)))
        except Exception as exc:
          return bad("amdf:exception:" + type(exc).__name__, "amdf raised", None, str(exc)[:200])
        d = [abs(x[i] - (x[i - lag] if i - lag >= 0 else zero)) for i in range(n)]
        exp = [sum(((d[i - k] if i - k >= 0 else zero) for k in range(size)), F(0)) / size for i in range(n)]
        ok = len(got) == n and all((abs(fq(g) - e) <= 4 * U * (1 + abs(e))) if size == 3 else fq(g) == e
                                   for g, e in zip(got, exp))
        if not ok:
          return bad("amdf:value", "amdf is not the moving average of |x[n]-x[n-lag]|",
                     {"lag": lag, "size": size, "zero": zero, "y": exp}, got)
  return R(None, n > 2, n)


# ---------------------------------------------------------------- envelope
CUTS = [math.pi / 512, 0.5, 2.0]


def gen_envelope(run):
  L = run.pick(5, 6)
  for s in seqs(L):
    yield s


def run_envelope(case):
  x = [F(v) for v in case]
  for ci, cut in enumerate(CUTS):
    lp = lowpass(cut)
    b0, a1 = Q(lp.numpoly[0]).f, Q(lp.denpoly[1]).f
    if len(lp.numpoly) != 1 or len(lp.denpoly) != 2 or Q(lp.denpoly[0]).f != 1:
      return bad("envelope:design", "harness: default lowpass is not a one-pole filter", None, str(lp))
    for strat in ("abs", "squared", "rms"):
      u = [abs(v) if strat == "abs" else v * v for v in x]
      y = []
      for i, v in enumerate(u):
        y.append(b0 * v - a1 * (y[i - 1] if i else F(0)))
      try:
        st = envelope[strat]([Q(v) for v in x], cutoff=cut) if ci else envelope[strat]([Q(v) for v in x])
        got = list(st)
      except Exception as exc:
        return bad("envelope:exception:" + type(exc).__name__, "envelope raised", None, str(exc)[:200])
      if len(got) != len(x):
        return bad("envelope:length", "one output per input", len(x), len(got))
      for g, e in zip(got, y):
        if strat == "rms":
          e = math.sqrt(max(float(e), 0.0))
          if abs(float(g) - e) > 1e-12 * (1 + e):
            return bad("envelope:rms", "rms envelope is not the square root of the low-passed square", e, g)
        elif fq(g) != e:
          return bad("envelope:" + strat, "envelope is not the documented one-pole low-pass of |x| / x^2",
                     {"cutoff": cut, "y": y}, got)
  return R(None, len(x) > 1, len(x))


# -------------------------------------------------------------------- clip
LIMITS = [None, "-1", "0", "1", "5/2", "-5/2"]


def gen_pointwise(run):
  L = run.pick(6, 7)
  for s in seqs(L):
    yield s


def gen_unwrap(run):
  L = run.pick(5, 6)
  for s_ in seqs(L):
    yield s_


def run_clip(case):
  x = [F(v) for v in case]
  for lo in LIMITS:
    for hi in LIMITS:
      l = None if lo is None else F(lo)
      h = None if hi is None else F(hi)
      plain = (LIMITS.index(lo) + LIMITS.index(hi)) % 2 == 1
      conv = (lambda v: int(v) if v.denominator == 1 else (float(v) if (LIMITS.index(lo) + len(x)) % 2 else v)) if plain else Q
      args = (None if l is None else conv(l), None if h is None else conv(h))
      if l is not None and h is not None and h < l:
        try:
          list(clip([Q(v) for v in x], *args))
        except ValueError:
          continue
        return bad("clip:inverted", "inverted limits must raise ValueError", "ValueError", "accepted")
      try:
        list(clip([Q(5), Q(-5)], Q(-2) if l is not None else None, Q(3) if h is not None else None))   # decoy
        xin = [Q(v) for v in x] if not plain else [int(v) if v.denominator == 1 else v for v in x]   # plain samples with plain limits
        got = list(clip(xin, *args))
        again = list(clip(list(got), *args))
      except Exception as exc:
        return bad("clip:exception:" + type(exc).__name__, "clip raised", None, str(exc)[:200])
      exp = [v if (l is None or v >= l) else l for v in x]
      exp = [v if (h is None or v <= h) else h for v in exp]
      if [fq(g) for g in got] != exp:
        return bad("clip:value", "clip does not bound every sample by the limits that are not None",
                   {"low": lo, "high": hi, "y": exp}, got)
      if again != got:
        return bad("clip:idempotent", "clip is not idempotent", got, again)
  d = list(clip([Q(v) for v in x]))
  if [fq(g) for g in d] != [min(max(v, F(-1)), F(1)) for v in x]:
    return bad("clip:default", "default limits are -1 and 1", None, d)
  return R(None, any(abs(v) > 1 for v in x), len(x))


# ------------------------------------------------------------------ zcross
HYST = ["0", "1/2", "1"]
FSIGN = ["-1", "0", "1", "3", "-1/2", "1/4"]


ZC_ALPHA = ["-1/10", "1/10", "-1/5", "1/5", "0", "1", "-9/10", "9/10"]
ZC_HYST = ["1/10", "1/5", "9/10"]        # thresholds whose nearest float lies beyond them


def gen_zcross_threshold(run):
  """Plain Fraction samples lying exactly ON a non-dyadic threshold (on it is not beyond it)."""
  for n in range(1, run.pick(4, 5) + 1):
    for s_ in itertools.product(ZC_ALPHA, repeat=n):
      yield list(s_)


def run_zcross_threshold(case):
  return run_zcross(case, ZC_HYST, True)


def run_zcross(case, hysts=None, all_plain=False):
  x = [F(v) for v in case]
  crossings = 0
  for hs in (hysts or HYST):
    h = F(hs)
    for fs in FSIGN:
      f = F(fs)
      sign = 0 if f == 0 else (-1 if f < 0 else 1)
      exp = []
      for v in x:
        if sign == 0:
          exp.append(0)
          if v > h or v < -h:
            sign = -1 if v < 0 else 1
        elif v * sign < -h:
          sign = -sign
          exp.append(1)
        else:
          exp.append(0)
      # parameter types alternate between the exact class Q and plain int / Fraction
      plain = all_plain or (HYST.index(hs) + FSIGN.index(fs)) % 2 == 1
      conv = (lambda v: int(v) if F(v).denominator == 1 else F(v)) if plain else Q
      try:
        list(zcross([Q(1), Q(-4), Q(4)], hysteresis=Q(h) + 2, first_sign=-Q(f)))                       # decoy
        if h == 0 and f == 0:
          got = list(zcross([Q(v) for v in x]))
        else:
          xin = [Q(v) for v in x] if not plain else [int(v) if v.denominator == 1 else v for v in x]
          got = list(zcross(xin, hysteresis=conv(h), first_sign=conv(f)))
      except Exception as exc:
        return bad("zcross:exception:" + type(exc).__name__, "zcross raised", None, str(exc)[:200])
      crossings += sum(exp)
      if got != exp:
        return bad("zcross:value", "zcross must emit 1 exactly at samples beyond the hysteresis threshold "
                   "on the side opposite to the current sign", {"hysteresis": hs, "first_sign": fs, "y": exp}, got)
  return R(None, crossings > 0, len(x))


# ------------------------------------------------------------------ unwrap
UNWRAP = [("1", "2"), ("1/2", "1"), ("2", "1"), ("3", "2"), ("1", "5"), ("1", "3"), ("1/4", "1"), ("-4", "4"), ("-1", "3"), ("0", "2")]


def check_unwrap(x, got, m, s, md, st):
  if len(got) != len(x):
    return bad("unwrap:length", "one output per input", len(x), len(got))
  g = [fq(v) for v in got]
  for a, b in zip(g, x):
    if ((a - b) / s).denominator != 1:
      return bad("unwrap:step", "samples may only change by multiples of step", {"step": st}, got)
  if all(abs(x[i] - x[i - 1]) <= m for i in range(1, len(x))):
    if g != x:
      return bad("unwrap:untouched", "a sequence with no jump above max_delta must be left untouched", x, got)
  lim = max(m, s / 2)
  for i in range(1, len(g)):
    if abs(g[i] - g[i - 1]) > lim:
      return bad("unwrap:jump", "an adjacent output jump exceeds max(max_delta, step/2)",
                 {"max_delta": md, "step": st, "limit": lim}, got)
  if g and g[0] != x[0]:
    return bad("unwrap:first", "the first sample must be unchanged", x[0], got[0])
  return None


def run_unwrap(case):
  x = [F(v) for v in case]
  jumps = False
  for md, st in UNWRAP:
    m, s = F(md), F(st)
    for ptype in ("Q", "plain"):
     # "plain": integral parameters as Python ints, others as Fractions (type-dependent paths)
     conv = Q if ptype == "Q" else (lambda v: int(v) if F(v).denominator == 1 else F(v))
     try:
      list(unwrap([Q(0), Q(9), Q(-9)], max_delta=Q(m) + 1, step=Q(s) * 3))                              # decoy
      # "plain": the samples too are plain ints / Fractions (the exact class Q would absorb a float
      # that the code mixes in; plain Fractions show it)
      xin = [Q(v) for v in x] if ptype == "Q" else [int(v) if v.denominator == 1 else v for v in x]
      got = list(unwrap(xin, max_delta=conv(m), step=conv(s)))
     except Exception as exc:
      return bad("unwrap:exception:" + type(exc).__name__, "unwrap raised (an empty input must give an "
                 "empty stream)", [], str(exc)[:200])
     r_ = check_unwrap(x, got, m, s, md, st)
     if r_ is not None:
       return r_
     if any(abs(x[i] - x[i - 1]) > m for i in range(1, len(x))):
       jumps = True
  # float default (pi, 2*pi); only where the samples are small enough for a float comparison to decide
  if any(abs(v) > 1000 for v in x):
    return R(None, jumps, len(x))
  xf = [float(v) * 2.5 for v in x]
  # one parameter left at its documented default (max_delta = pi, step = 2 pi) while the other is given
  for st_ in (1.0, 2.0, 0.5, 7.0):
    a, b = list(unwrap(list(xf), step=st_)), list(unwrap(list(xf), max_delta=math.pi, step=st_))
    if a != b:
      return bad("unwrap:default-max_delta", "unwrap(sig, step=%r) must use the documented default max_delta = pi" % st_,
                 b, a)
  for md_ in (1.0, 0.25, 4.0):
    a, b = list(unwrap(list(xf), max_delta=md_)), list(unwrap(list(xf), max_delta=md_, step=2 * math.pi))
    if a != b:
      return bad("unwrap:default-step", "unwrap(sig, max_delta=%r) must use the documented default step = 2 pi" % md_,
                 b, a)
  got = list(unwrap(list(xf)))
  for i in range(1, len(got)):
    if abs(got[i] - got[i - 1]) > math.pi + 1e-9:
      return bad("unwrap:default", "default unwrap leaves a jump above pi", None, got)
    k = (got[i] - xf[i]) / (2 * math.pi)
    if abs(k - round(k)) > 1e-9:
      return bad("unwrap:default-step", "default unwrap changed a sample by a non-multiple of 2*pi", None, got)
  return R(None, jumps, len(x))


ALPHA_FINE = ["-2", "-3/4", "0", "1/4", "1/3", "1", "7/4", "3", "100000000000000001/10"]      # a non-dyadic value and one beyond 2**53: exact samples stay exact


def gen_fine(run):
  """Shorter sequences over a finer alphabet: fractional remainders on both sides of step/2."""
  for n in range(0, run.pick(4, 5) + 1):
    for s_ in itertools.product(ALPHA_FINE, repeat=n):
      yield list(s_)


# -------------------------------------------------------------- containers
# Every tool must treat every kind of input sequence alike: the other kinds feed lists (and decide
# the values against the formulas); this one feeds the same samples as tuple / Stream / one-shot
# iterator / generator / re-iterable object and demands the list's answer.
class ReIter(object):
  def __init__(self, data):
    self.data = list(data)
  def __iter__(self):
    return iter(list(self.data))


CONTAINERS = OrderedDict([
  ("tuple", tuple), ("stream", lambda v: Stream(list(v))), ("iter", lambda v: iter(list(v))),
  ("generator", lambda v: (e for e in list(v))), ("reiter", ReIter),
  ("stream-of-iter", lambda v: Stream(iter(list(v)))),
])
BASE = ["1", "-2", "1/2", "3", "-1", "0", "3", "-2", "1"]


def tool_menu():
  m = OrderedDict()
  for strat in ("deque", "recursive", "feedback", "fir"):
    for size in (1, 2, 4):
      m["maverage.%s(%d)" % (strat, size)] = (lambda x, strat=strat, size=size: maverage[strat](size)(x, zero=Q(0)))
  for strat in ("accumulate", "itertools", "func", "pure_python", "z"):
    m["accumulate.%s" % strat] = (lambda x, strat=strat: accumulate[strat](x))
  for lag in (1, 2, 3, 5):
    for size in (1, 2):
      m["amdf(%d,%d)" % (lag, size)] = (lambda x, lag=lag, size=size: amdf(lag, size)(x, zero=Q(0)))
  for strat in ("abs", "squared", "rms"):
    m["envelope.%s" % strat] = (lambda x, strat=strat: envelope[strat](x, cutoff=.5))
  for lo, hi in ((None, "1"), ("-1", None), ("-1", "1")):
    m["clip(%s,%s)" % (lo, hi)] = (lambda x, lo=lo, hi=hi: clip(x, None if lo is None else Q(lo), None if hi is None else Q(hi)))
  for h in ("0", "1/2"):
    for fs in ("0", "1"):
      m["zcross(%s,%s)" % (h, fs)] = (lambda x, h=h, fs=fs: zcross(x, hysteresis=Q(h), first_sign=Q(fs)))
  for md, st in (("1", "2"), ("1/2", "1"), ("2", "1")):
    m["unwrap(%s,%s)" % (md, st)] = (lambda x, md=md, st=st: unwrap(x, max_delta=Q(md), step=Q(st)))
  return m


TOOLS = tool_menu()


def gen_containers(run):
  for name in TOOLS:
    for n in (0, 1, 2, 3, 5, 9):
      yield (name, n)


def run_containers(case):
  name, n = case
  tool = TOOLS[name]
  x = [Q(v) for v in BASE[:n]]
  def val(v):
    return v if isinstance(v, float) else fq(v)
  try:
    want = [val(v) for v in tool(list(x))]
  except Exception as exc:
    return bad("containers:exception:" + type(exc).__name__, "%s raised on a list" % name, None, str(exc)[:200])
  if len(want) != n:
    return bad("containers:length", "%s must give one output per input sample" % name, n, len(want))
  for ck, mk in CONTAINERS.items():
    try:
      out = tool(mk(x))
      got = [val(v) for v in out]
    except Exception as exc:
      return bad("containers:exception:" + type(exc).__name__, "%s raised on a %s input" % (name, ck), None, str(exc)[:200])
    if not isinstance(out, Stream):
      return bad("containers:type", "%s must return a Stream" % name, "Stream", type(out).__name__)
    if got != want:
      return bad("containers:value", "%s of a %s differs from the same samples given as a list" % (name, ck),
                 want, got, n > 1)
  return R(None, n > 1, (name.split("(")[0].split(".")[0], n > 3))


# ------------------------------------------------------------ calling routes
from ..routes import routes_agree, seq as rseq


def route_table():
  T = OrderedDict()
  c = lambda v: (lambda: v)
  X = lambda: [Q(v) for v in BASE]
  app = lambda filt: rseq(filt(X(), zero=Q(0)))
  for strat in ("deque", "recursive", "feedback", "fir"):
    T["maverage." + strat] = (maverage[strat], [("size", c(2))], app)
  T["amdf"] = (amdf, [("lag", c(2)), ("size", c(4))], app)
  for strat in ("abs", "squared", "rms"):
    T["envelope." + strat] = (envelope[strat], [("sig", X), ("cutoff", c(0.5))], lambda g: [round(float(Q(v).f if hasattr(v, "f") else v), 10) for v in g])
  T["clip"] = (clip, [("sig", X), ("low", c(Q(-1, 2))), ("high", c(Q(2)))], rseq)
  T["zcross"] = (zcross, [("seq", X), ("hysteresis", c(Q(1, 2))), ("first_sign", c(Q(-1)))], rseq)
  T["unwrap"] = (unwrap, [("sig", X), ("max_delta", c(Q(1))), ("step", c(Q(3)))], rseq)
  for strat in ("accumulate", "itertools", "func", "pure_python", "z"):
    T["accumulate." + strat] = (accumulate[strat], [("sig", X)], rseq, 1)
  return T


def gen_routes(run):
  for name in route_table():
    yield (name,)


def run_routes(case):
  ent = route_table()[case[0]]
  return routes_agree(case[0], ent[0], ent[1], ent[2], ent[3] if len(ent) > 3 else 0)


# ---------------------------------------------------------------- long inputs
def lcg_seq(n, seed, alphabet):
  out, v = [], seed
  for _ in range(n):
    v = (v * 1103515245 + 12345) % (2 ** 31)
    out.append(alphabet[(v >> 8) % len(alphabet)])
  return out


LONG_TOOLS = OrderedDict([("zcross", run_zcross), ("unwrap", run_unwrap), ("clip", None), ("amdf", run_amdf),
                          ("envelope", run_envelope), ("maverage", None), ("accumulate", None)])


def gen_long(run):
  for tool in LONG_TOOLS:
    for n in (64, 65, 130, run.pick(400, 2000)):
      for seed in (1, 2):
        yield (tool, n, seed)


def run_long(case):
  """The same oracles on sequences of hundreds of samples (and lengths around powers of two)."""
  tool, n, seed = case
  alpha = ALPHA_FINE if tool in ("unwrap", "zcross") else ALPHA
  xs = lcg_seq(n, seed, alpha)
  if tool == "clip":
    r = run_clip(xs)
  elif tool in ("zcross", "unwrap", "amdf", "envelope"):
    r = LONG_TOOLS[tool](xs)
  elif tool == "accumulate":
    x = [F(v) for v in xs]
    want, acc = [], F(0)
    for v in x:
      acc += v
      want.append(acc)
    for strat in ("accumulate", "itertools", "func", "pure_python", "z"):
      got = [fq(v) for v in accumulate[strat]([Q(v) for v in x])]
      if got == want and strat != "z":
        # plain ints / Fractions stay exact too (the filter-based strategy starts from a float zero)
        got = [v for v in accumulate[strat]([int(v) if v.denominator == 1 else v for v in x])]
        if any(isinstance(v, float) for v in got):
          got = ["float"] + got[:3]
      if got != want:
        k = next((i for i, (g, e) in enumerate(zip(got, want)) if g != e), min(len(got), len(want)))
        return bad("accumulate:value-long", "accumulate.%s is not the running sum on a long input" % strat,
                   {"n": k, "value": want[k] if k < len(want) else None, "length": len(want)},
                   {"value": got[k] if k < len(got) else None, "length": len(got)}, True)
    return R(None, True, ("accumulate", n > 200))
  else:
    x = [F(v) for v in xs]
    for size in (16, 33, 64, 100):
      want = [sum(x[max(0, i - size + 1):i + 1], F(0)) / size for i in range(len(x))]
      for strat in ("deque", "recursive", "feedback", "fir"):
        got = list(maverage[strat](size)([Q(v) for v in x], zero=Q(0)))
        if len(got) != len(want):
          return bad("maverage:length-long", "one output per input", len(want), len(got), True)
        for i, (g, e) in enumerate(zip(got, want)):
          gv = fq(g)
          tol = 0 if size in (16, 64) else F(size * 8) * F(2) ** -53 * (1 + abs(e))
          if abs(gv - e) > tol:
            return bad("maverage:value-long", "maverage.%s(%d) is not the mean of the last size samples on a long input"
                       % (strat, size), {"n": i, "value": str(e)}, str(gv), True)
    return R(None, True, ("maverage", n > 200))
  if r.viol is not None:
    r.viol["key"] = r.viol["key"] + "-long"
  return r


def gen_types(run):
  from ..routes import struct_params
  try:
    T = route_table()
  except Exception:
    T = {}
  for name, ent in T.items():
    if struct_params(ent[1]):
      yield (name,)


def run_types(case):
  from ..routes import struct_params, types_agree
  ent = route_table()[case[0]]
  return types_agree(case[0], ent[0], ent[1], ent[2], struct_params(ent[1]))


KINDS = OrderedDict([
  ("maverage", Kind(gen_maverage, run_maverage, chunk=10, rule="strategy x size x zero kind x length on symbolic input")),
  ("reuse", Kind(gen_interleave, run_interleave, chunk=2, rule="one filter object, two signals, interleaved consumption")),
  ("accumulate", Kind(gen_accumulate, run_accumulate, chunk=6, rule="strategy x length x source kind on symbolic input")),
  ("containers", Kind(gen_containers, run_containers, chunk=8,
                      rule="every tool configuration x input container kind (tuple, Stream, iterator, generator, re-iterable); differential against the list input")),
  ("amdf", Kind(gen_amdf, run_amdf, chunk=20, rule="all sequences x lags x sizes x zero")),
  ("envelope", Kind(gen_envelope, run_envelope, chunk=20, rule="all sequences x strategies x cut-offs")),
  ("clip", Kind(gen_pointwise, run_clip, chunk=200, rule="all sequences x all limit pairs")),
  ("zcross", Kind(gen_pointwise, run_zcross, chunk=200, rule="all sequences x hysteresis x first_sign; non-trivial: a crossing is expected")),
  ("unwrap", Kind(gen_unwrap, run_unwrap, chunk=200, rule="all sequences x (max_delta, step) pairs x parameter types; non-trivial: a jump above max_delta")),
  ("unwrap-fine", Kind(gen_fine, run_unwrap, chunk=100, rule="sequences over a finer 8-value alphabet (length <= 4) x the same configurations")),
  ("zcross-threshold", Kind(gen_zcross_threshold, run_zcross_threshold, chunk=100,
                            rule="plain Fraction samples on / off non-dyadic thresholds (1/10, 1/5, 9/10) x first_sign")),
  ("zcross-fine", Kind(gen_fine, run_zcross, chunk=100, rule="sequences over the finer alphabet x hysteresis x first_sign")),
  ("call-routes", Kind(gen_routes, run_routes, chunk=1,
                       rule="each function with every documented parameter set: all positional / all keyword / every split must agree")),
  ("long", Kind(gen_long, run_long, chunk=1, timeout=300,
                rule="every tool on pseudo-random sequences of 64, 65, 130 and 400 (2000) samples, same oracles")),
  ("param-types", Kind(gen_types, run_types, chunk=1,
                       rule="structural integer parameters given as integral float / Fraction / bool: same result wherever the type is accepted")),
])
