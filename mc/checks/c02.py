"""
C02 - Everything is lazy: no read before demand, bounded read per output.

E1 with instrumented sources: a catalogue of processing stages, each with the
number of source items the *statement* allows for the first k outputs, is run
on counting sources over an endless sequence (a tripwire raises if a stage reads
beyond its allowance, so an eager stage fails loudly instead of hanging).
Checked: zero reads at construction, and after each of k = 1..K outputs the
pull count equals (or, for documented look-ahead stages, does not exceed) the
allowance.  Stages are then composed into chains whose allowances compose.
"""
from collections import OrderedDict
from fractions import Fraction
import itertools, math, operator
from ..runner import Kind, R, bad
from ..sources import CountingSource, Overread
from ..exact import Q

import audiolazy
from audiolazy import (Stream, thub, blocks, zero_pad, chunks, z, ZFilter, CascadeFilter, ParallelFilter,
                       lowpass, highpass, resonator, maverage, envelope, amdf, clip, zcross, unwrap,
                       Streamix, resample, overlap_add, stft, modulo_counter, TableLookup, accumulate)
from audiolazy import lazy_itertools as li

PROPERTY = "C02"
LEVEL = "exploration"
RULE = ("every stage of the catalogue x k = 1..K on counting sources, all chains of composable stages "
        "up to the depth bound; non-trivial: the stage needs more than k items for k outputs, has more "
        "than one source, or is a chain")
ASSUMPTIONS = [
  "a filter's *memory* iterable is not a source (order+1 items of it are read up front by design)",
  "itertools.product / permutations / combinations(_with_replacement) consume their pool eagerly by "
  "definition and are not AudioLazy stages; unclassified names of lazy_itertools are listed in the evidence",
  "allowances: exactly k for sample-wise stages, (j-1)*hop+size for j blocks, the documented look-ahead otherwise",
]


def bounds(run):
  cat = catalogue()
  names = set(li.__all__)
  classified = set(ITERTOOLS_CLASSIFIED) | set(ITERTOOLS_EXCLUDED)
  return {"K": run.pick(8, 24), "stages": len(cat), "composable": len([s for s in cat.values() if s.chain]),
          "chain_depth": run.pick(2, 3),
          "lazy_itertools_excluded": sorted(ITERTOOLS_EXCLUDED),
          "lazy_itertools_unclassified": sorted(n for n in names - classified if not n.startswith("_") and n[0].islower())}


ITERTOOLS_EXCLUDED = ["product", "permutations", "combinations", "combinations_with_replacement"]
ITERTOOLS_CLASSIFIED = ["imap", "izip", "chain", "islice", "takewhile", "dropwhile", "starmap", "ifilter",
                        "ifilterfalse", "compress", "accumulate", "tee", "repeat", "count", "pairwise",
                        "batched", "izip_longest", "groupby", "cycle"]


class Stage(object):
  def __init__(self, build, need, exact=True, nsrc=1, chain=None, kind="num", valuedep=False, finite=None):
    self.build, self.need, self.exact, self.nsrc = build, need, exact, nsrc
    self.valuedep, self.finite = valuedep, finite
    self.chain = chain if chain is not None else (nsrc == 1 and exact)
    self.kind = kind


def ceil_div(a, b):
  return -(-a // b)


def resample_need(k, step_num, step_den, p):
  # highest input index inside the interpolation window of output k-1, plus one
  from fractions import Fraction as F
  t = F(step_num, step_den) * (k - 1)
  w0 = math.ceil(t - F(p + 1, 2))
  return max(w0 + p + 1, 0)


class ReIter(object):
  """A re-iterable (NOT an iterator) that reads lazily from an underlying counted source:
  every iter() starts another reader on the same source, so a stage that iterates its input
  once per branch instead of sharing one read shows up in the pull count."""
  def __init__(self, src):
    self.src = src
  def __iter__(self):
    for v in self.src:
      yield v


def catalogue():
  C = OrderedDict()
  S = Stage
  odd = lambda v: v % 2 == 1
  # ---- Stream operators and methods
  C["stream"] = S(lambda s: Stream(s), lambda k: k)
  C["stream+1"] = S(lambda s: Stream(s) + 1, lambda k: k)
  C["2*stream"] = S(lambda s: 2 * Stream(s), lambda k: k)
  C["-stream"] = S(lambda s: -Stream(s), lambda k: k)
  C["abs"] = S(lambda s: abs(Stream(s)), lambda k: k)
  C["stream<3"] = S(lambda s: Stream(s) < 3, lambda k: k)
  C["stream+stream"] = S(lambda a, b: Stream(a) + Stream(b), lambda k: k, nsrc=2)
  C["stream*list"] = S(lambda s: Stream(s) * list(range(1, 60)), lambda k: k, chain=False)
  # reflected operators with a finite plain iterable on the left: it ends first, the Stream has been read
  # exactly once per output
  C["list+stream"] = S(lambda s: [1, 2, 3] + Stream(s), lambda k: min(k, 3), chain=False, finite=3)
  C["range-stream"] = S(lambda s: range(4) - Stream(s), lambda k: min(k, 4), chain=False, finite=4)
  C["tuple*stream"] = S(lambda s: (5, 6) * Stream(s), lambda k: min(k, 2), chain=False, finite=2)
  C["gen+stream"] = S(lambda a, b: (x for x in a) + Stream(b), lambda k: k, nsrc=2)
  C["map"] = S(lambda s: Stream(s).map(lambda v: v + 10), lambda k: k)
  C["filter-odd"] = S(lambda s: Stream(s).filter(odd), lambda k: 2 * k, chain=False, valuedep=True)
  C["skip3"] = S(lambda s: Stream(s).skip(3), lambda k: k + 3)
  C["skip0"] = S(lambda s: Stream(s).skip(0), lambda k: k)
  # the same with every number type a count may have
  C["skip(3.0)"] = S(lambda s: Stream(s).skip(3.0), lambda k: k + 3)
  C["skip(2.6)"] = S(lambda s: Stream(s).skip(2.6), lambda k: k + 3)
  C["skip(Fraction)"] = S(lambda s: Stream(s).skip(Fraction(5, 2) + Fraction(1, 10)), lambda k: k + 3)
  C["skip(True)"] = S(lambda s: Stream(s).skip(True), lambda k: k + 1)
  C["skip(-1.5)"] = S(lambda s: Stream(s).skip(-1.5), lambda k: k)
  C["limit(100.0)"] = S(lambda s: Stream(s).limit(100.0), lambda k: k, chain=False)
  from audiolazy import attack as _attack, adsr as _adsr
  # a stream-valued sustain level: the first output needs its first item (it fixes the decay slope),
  # the others are read one per output after the attack and decay parts
  C["attack(stream sustain)"] = S(lambda s: _attack(2, 3, s), lambda k: 1 if k <= 5 else k - 4, chain=False)
  C["attack(stream sustain, 2.5, 1.5)"] = S(lambda s: _attack(2.5, 1.5, Stream(s)), lambda k: 1 if k <= 5 else k - 4, chain=False)
  # the broadcast argument given by keyword name (same laziness as by position)
  C["dB20(data=stream)"] = S(lambda s: dB20(data=abs(Stream(s)) + 1), lambda k: k)
  C["midi2freq(midi_number=generator)"] = S(lambda s: audiolazy.midi2freq(midi_number=(v for v in s)), lambda k: k, chain=False, kind="gen")
  C["freq_response(freq=stream)"] = S(lambda s: (1 - z ** -1).freq_response(freq=Stream(s)), lambda k: k, chain=False)
  # deep stacks of lazy layers: a thousand nested operators / gains are still one item per output
  def deep_sum(s):
    t = Stream(s)
    for i in range(1200):
      t = t + 0
    return t
  def deep_gain(s):
    t = Stream(s)
    for i in range(700):
      t = (t * 1).map(lambda v: v) if i % 100 == 0 else t * 1
    return t
  C["1200 nested operators"] = S(deep_sum, lambda k: k, chain=False)
  C["700 gain stages"] = S(deep_gain, lambda k: k, chain=False)
  C["skip.skip"] = S(lambda s: Stream(s).skip(2).skip(1.0), lambda k: k + 3)
  C["limit5"] = S(lambda s: Stream(s).limit(5), lambda k: min(k, 5), chain=False, finite=5)
  C["islice(4)"] = S(lambda s: li.islice(s, 4), lambda k: min(k, 4), chain=False, finite=4)
  C["takewhile<3"] = S(lambda s: li.takewhile(lambda v: v < 3, s), lambda k: min(k, 3) + (1 if k > 3 else 0), chain=False, finite=3)
  C["limit100"] = S(lambda s: Stream(s).limit(100), lambda k: k)
  C["append"] = S(lambda a, b: Stream(a).append(b), lambda k: (k, 0), nsrc=2)
  C["copy"] = S(lambda s: Stream(s).copy(), lambda k: k)
  C["copy-original"] = S(lambda s: (lambda st: (st.copy(), st)[1])(Stream(s)), lambda k: k)
  C["getattr.real"] = S(lambda s: Stream(s).real, lambda k: k)
  C["call"] = S(lambda s: Stream(s).map(lambda v: (lambda: v))(), lambda k: k)
  C["blocks(3,2)"] = S(lambda s: Stream(s).blocks(size=3, hop=2), lambda j: (j - 1) * 2 + 3, kind="blocks")
  C["blocks(2,2)"] = S(lambda s: blocks(s, size=2), lambda j: 2 * j, kind="blocks")
  C["blocks(2,5)"] = S(lambda s: blocks(s, size=2, hop=5), lambda j: (j - 1) * 5 + 2, kind="blocks")
  C["blocks(4,1)"] = S(lambda s: blocks(s, size=4, hop=1), lambda j: j + 3, kind="blocks")
  C["thub-2uses"] = S(lambda s: (lambda t: t + t)(thub(Stream(s), 2)), lambda k: k)
  C["thub-list"] = S(lambda s: (lambda t: t * 2 - t)(thub(s, 2)), lambda k: k)
  # ---- lazy_itertools
  C["imap"] = S(lambda s: li.imap(lambda v: v * 2, s), lambda k: k)
  C["izip"] = S(lambda a, b: li.izip(a, b), lambda k: k, nsrc=2, kind="tuples")
  C["chain"] = S(lambda a, b: li.chain(a, b), lambda k: (k, 0), nsrc=2)
  C["chain.star"] = S(lambda s: li.chain.star(li.imap(lambda v: [v, v], s)), lambda k: ceil_div(k, 2), chain=False)
  C["islice(2,None)"] = S(lambda s: li.islice(s, 2, None), lambda k: k + 2)
  C["islice(None,None,3)"] = S(lambda s: li.islice(s, None, None, 3), lambda k: 3 * (k - 1) + 1, chain=False)
  C["takewhile"] = S(lambda s: li.takewhile(lambda v: True, s), lambda k: k)
  C["dropwhile"] = S(lambda s: li.dropwhile(lambda v: v < 3, s), lambda k: k + 3, chain=False, valuedep=True)
  C["starmap"] = S(lambda s: li.starmap(operator.add, li.imap(lambda v: (v, 1), s)), lambda k: k)
  C["ifilter"] = S(lambda s: li.ifilter(odd, s), lambda k: 2 * k, chain=False, valuedep=True)
  C["ifilterfalse"] = S(lambda s: li.ifilterfalse(odd, s), lambda k: 2 * k - 1, chain=False, valuedep=True)
  C["compress"] = S(lambda s: li.compress(s, itertools.cycle([1, 0])), lambda k: 2 * k - 1, chain=False)
  C["accumulate"] = S(lambda s: li.accumulate(s), lambda k: k)
  C["accumulate.func"] = S(lambda s: accumulate.func(s), lambda k: k)
  C["accumulate.z"] = S(lambda s: accumulate.z(s), lambda k: k)
  C["tee"] = S(lambda s: li.tee(Stream(s), 2)[0], lambda k: k)
  C["tee-both"] = S(lambda s: (lambda ab: ab[0] + ab[1])(li.tee(Stream(s), 2)), lambda k: k)
  C["pairwise"] = S(lambda s: li.pairwise(s), lambda k: k + 1, kind="tuples")
  C["batched3"] = S(lambda s: li.batched(s, 3), lambda k: 3 * k, kind="tuples")
  C["izip_longest"] = S(lambda a, b: li.izip_longest(a, b), lambda k: k, nsrc=2, kind="tuples")
  C["izip.longest"] = S(lambda a, b: li.izip.longest(a, b), lambda k: k, nsrc=2, kind="tuples")
  C["groupby"] = S(lambda s: li.groupby(s, lambda v: v // 2), lambda k: 2 * k - 1, kind="tuples", chain=False, valuedep=True)
  C["cycle"] = S(lambda s: li.cycle(s), lambda k: k)
  # ---- filters
  C["fir"] = S(lambda s: (1 + 2 * z ** -1 - z ** -3)(s), lambda k: k)
  C["iir"] = S(lambda s: ((1 - z ** -1) / (1 - .5 * z ** -1))(s, zero=0), lambda k: k)
  # an endless memory iterable: "the first needed elements from this input will be used"; the
  # tripwire stands far beyond them (a C-level endless iterator could not be interrupted)
  C["iir-memory"] = S(lambda s: ZFilter([1], [1, -.5, .25])(s, memory=endless_memory()), lambda k: k)
  C["iir-memory(stream)"] = S(lambda s: ZFilter([1, 1], [1, 0, 0, .25])(s, memory=Stream(endless_memory())), lambda k: k)
  C["cascade-memory"] = S(lambda s: CascadeFilter(1 - z ** -1, 1 / (1 - .5 * z ** -1))(s, memory=endless_memory()), lambda k: k)
  C["allzero-filter"] = S(lambda s: (0 * z)(s), lambda k: k)
  C["tv-coefficient"] = S(lambda a, b: (Stream(b) * z ** -1 + 1)(a), lambda k: k, nsrc=2)
  C["tv-denominator"] = S(lambda a, b: (1 / (1 - Stream(b) * z ** -1))(a), lambda k: k, nsrc=2)
  C["tv-a0"] = S(lambda a, b: (1 / ((Stream(b) + 1) - z ** -1))(a), lambda k: k, nsrc=2)
  C["cascade"] = S(lambda s: CascadeFilter(1 - z ** -1, 1 / (1 - .5 * z ** -1))(s), lambda k: k)
  C["parallel"] = S(lambda s: ParallelFilter(1 - z ** -1, z ** -2, 1 / (1 - .5 * z ** -1))(s), lambda k: k)
  C["parallel(re-iterable)"] = S(lambda s: ParallelFilter(1 - z ** -1, z ** -2, 1 / (1 - .5 * z ** -1))(ReIter(s)), lambda k: k)
  C["cascade(parallel(re-iterable))"] = S(lambda s: CascadeFilter(ParallelFilter(1 + z ** -1, z ** -1), 1 - z ** -1)(ReIter(s)),
                                          lambda k: k)
  C["fir(re-iterable)"] = S(lambda s: (1 + 2 * z ** -1)(ReIter(s)), lambda k: k)
  C["stream(re-iterable)+itself"] = S(lambda s: (lambda t: t + t)(thub(ReIter(s), 2)), lambda k: k)
  C["blocks(re-iterable)"] = S(lambda s: blocks(ReIter(s), size=3, hop=1), lambda j: j + 2, kind="blocks")
  C["maverage(re-iterable)"] = S(lambda s: maverage.recursive(3)(ReIter(s)), lambda k: k)
  C["parallel-empty"] = S(lambda s: ParallelFilter()(s), lambda k: k)
  C["cascade-empty"] = S(lambda s: Stream(CascadeFilter()(s)), lambda k: k)
  C["linearized"] = S(lambda s: (z ** -1.5).linearize()(s), lambda k: k)
  for nm, f in (("lowpass.pole", lowpass.pole), ("lowpass.z", lowpass.z), ("highpass.pole", highpass.pole),
                ("highpass.z", highpass.z), ("lowpass.pole_exp", lowpass.pole_exp), ("highpass.z_exp", highpass.z_exp)):
    C[nm + "(stream)"] = S(lambda a, b, f=f: f(Stream(b) * .001 + .5)(a), lambda k: k, nsrc=2)
  for nm in ("poles_exp", "freq_poles_exp", "z_exp", "freq_z_exp"):
    C["resonator.%s(stream)" % nm] = S(
        lambda a, b, c, f=resonator[nm]: f(Stream(b) * .001 + .5, Stream(c) * .001 + .1)(a), lambda k: k, nsrc=3)
  from audiolazy import x as px, gammatone, tostream, dB20, sin as lsin
  C["poly(stream)"] = S(lambda s: (px ** 2 + 2 * px + 1)(Stream(s)), lambda k: k)
  C["laurent-poly(stream)"] = S(lambda s: (px ** -1 + 3)(Stream(s) + 1), lambda k: k, chain=False)
  C["freq_response(stream)"] = S(lambda s: (1 - .5 * z ** -1).freq_response(Stream(s) * .01), lambda k: k, chain=False)
  C["cascade.freq_response(stream)"] = S(lambda s: CascadeFilter(1 - z ** -1, 1 / (1 - .5 * z ** -1))
                                         .freq_response(Stream(s) * .01 + .1), lambda k: k, chain=False)
  C["dB20(stream)"] = S(lambda s: dB20(abs(Stream(s)) + 1), lambda k: k)     # argument >= 1 whatever precedes it in a chain
  C["sin(generator)"] = S(lambda s: Stream(lsin(v for v in s)), lambda k: k)
  C["gammatone.klapuri(stream)"] = S(lambda a, b, c: gammatone.klapuri(Stream(b) * .001 + .5, Stream(c) * .001 + .1)(a),
                                     lambda k: k, nsrc=3)
  def _gen(src):
    for v in src:
      yield v * 2
  C["tostream(generator function)"] = S(lambda s: tostream(_gen)(s), lambda k: k)
  # ---- misc / io
  C["zero_pad(2,3)"] = S(lambda s: zero_pad(s, 2, 3), lambda k: max(k - 2, 0), chain=False)
  C["chunks.struct(2)"] = S(lambda s: chunks.struct(s, size=2, dfmt="d", padval=0.), lambda j: 2 * j, kind="bytes")
  C["chunks.array(3)"] = S(lambda s: chunks.array(s, size=3, dfmt="d", padval=0.), lambda j: 3 * j, kind="bytes")
  # ---- analysis
  for nm in ("deque", "recursive", "fir"):
    C["maverage.%s(3)" % nm] = S(lambda s, nm=nm: maverage[nm](3)(s), lambda k: k)
  for nm in ("rms", "abs", "squared"):
    C["envelope." + nm] = S(lambda s, nm=nm: envelope[nm](s, cutoff=.5), lambda k: k)
  C["amdf(2,3)"] = S(lambda s: amdf(2, 3)(s), lambda k: k)
  C["clip"] = S(lambda s: clip(s, -1, 4), lambda k: k)
  C["clip-onesided"] = S(lambda s: clip(s, None, 4), lambda k: k)
  C["clip-none"] = S(lambda s: clip(s, None, None), lambda k: k)
  C["zcross"] = S(lambda s: zcross(s), lambda k: k)
  C["zcross(hyst,sign)"] = S(lambda s: zcross(s, hysteresis=1, first_sign=-1), lambda k: k)
  C["unwrap"] = S(lambda s: unwrap(s), lambda k: k)
  C["unwrap(1,2)"] = S(lambda s: unwrap(s, 1, 2), lambda k: k)
  # ---- mixer, synth, resampling
  def mix(keep):
    def build(a, b):
      m = Streamix(keep=keep)
      m.add(0, a)
      m.add(2, b)
      return m
    return build
  def mixfrac(a, b):
    m = Streamix()
    m.add(2.4, a)       # due at 2.4 -> sample 2
    m.add(2.4, b)       # due at 4.8 -> sample 5
    return m
  C["streamix-fractional"] = S(mixfrac, lambda k: (max(k - 2, 0), max(k - 5, 0)), nsrc=2)
  def mixfrac2(a, b, c):
    m = Streamix(keep=True)
    m.add(0.3, a); m.add(1.3, b); m.add(1.3, c)    # due at 0.3, 1.6, 2.9 -> samples 0, 2, 3
    return m
  C["streamix-fractional3"] = S(mixfrac2, lambda k: (k, max(k - 2, 0), max(k - 3, 0)), nsrc=3)
  def mixnote(keep):
    # a note = source x a finite envelope of 3 samples: once the note has ended (the 4th read finds the
    # envelope over) its source is never read again, whether the mixer keeps running (keep) or goes on
    # with the second event
    def build(a, b):
      m = Streamix(keep=keep)
      m.add(0, Stream(a) * [1, 1, 1])
      m.add(1, b)
      return m
    return build
  C["streamix-note"] = S(mixnote(False), lambda k: (min(k, 4), max(k - 1, 0)), nsrc=2)
  C["streamix-keep-note"] = S(mixnote(True), lambda k: (min(k, 4), max(k - 1, 0)), nsrc=2)
  _idle = []
  def mix_beside_idle(keep):
    # another mixer exists at the same time and holds an event that nobody asks for: reading this mixer
    # reads nothing of the other one's sources
    def build(a, b):
      other = Streamix(keep=keep)
      other.add(0, a)
      other.add(1, [7, 7])
      del _idle[:]
      _idle.append(other)
      m = Streamix()
      m.add(0, b)
      return m
    return build
  C["streamix-beside-idle-mixer"] = S(mix_beside_idle(False), lambda k: (0, k), nsrc=2)
  C["streamix-beside-idle-keep-mixer"] = S(mix_beside_idle(True), lambda k: (0, k), nsrc=2)
  C["streamix"] = S(mix(False), lambda k: (k, max(k - 2, 0)), nsrc=2)
  C["streamix-keep"] = S(mix(True), lambda k: (k, max(k - 2, 0)), nsrc=2)
  C["modulo_counter(start)"] = S(lambda s: modulo_counter(Stream(s), 7., 2.), lambda k: k)
  C["modulo_counter(step)"] = S(lambda s: modulo_counter(0., 7., Stream(s)), lambda k: k)
  C["modulo_counter(all)"] = S(lambda a, b, c: modulo_counter(Stream(a), Stream(b) + 5, Stream(c)), lambda k: k, nsrc=3)
  C["table(freq stream)"] = S(lambda s: TableLookup([0., 1., 0., -1.])(Stream(s) * .01), lambda k: k)
  C["table(phase stream)"] = S(lambda s: TableLookup([0., 1., 0., -1.])(.3, Stream(s) * .01), lambda k: k)
  for p in (0, 1, 2, 3):
    for (o, n) in ((1, 1), (1, 2), (3, 2), (5, 2)):
      C["resample(%d:%d,order=%d)" % (o, n, p)] = S(
          lambda s, o=o, n=n, p=p: resample(s, Q(o), Q(n), order=p),
          lambda k, o=o, n=n, p=p: resample_need(k, o, n, p), chain=False)
  C["resample(step stream)"] = S(lambda a, b: resample(a, Stream(b) * 0 + 1, 1, order=1),
                                 lambda k: (resample_need(k, 1, 1, 1), max(k - 1, 0)), nsrc=2)
  # ---- overlap-add / STFT (the source is a sequence of blocks / of samples)
  C["ola.list(size given)"] = S(lambda s: overlap_add.list(li.imap(lambda v: [v] * 4, s), size=4, hop=2),
                                lambda k: ceil_div(k, 2), chain=False)
  C["ola.list(size detected)"] = S(lambda s: overlap_add.list(li.imap(lambda v: [v] * 4, s), hop=2),
                                   lambda k: ceil_div(k, 2), chain=False)
  C["ola.list(window, hop=size)"] = S(lambda s: overlap_add.list(li.imap(lambda v: [v] * 3, s), wnd=[1, 2, 1]),
                                      lambda k: ceil_div(k, 3), chain=False)
  ident = lambda blk: blk
  C["stft(identity)"] = S(lambda s: stft(ident, size=4, hop=2, transform=None, inverse_transform=None,
                                          before=None, after=None, ola=overlap_add.list)(s),
                          lambda k: (ceil_div(k, 2) - 1) * 2 + 4, chain=False)
  C["stft(ola=None)"] = S(lambda s: stft(ident, size=3, hop=3, transform=None, inverse_transform=None,
                                         before=None, after=None, ola=None, wnd=[1, 1, 1])(s),
                          lambda j: 3 * j, kind="blocks")
  return C


CAT = catalogue()


def gen_stages(run):
  K = run.pick(8, 24)
  for name in run.rot(list(CAT)):
    for mode in ("step", "after-limit"):
      yield (name, K, mode)
    if CAT[name].nsrc >= 2 and (name.startswith("tv-") or name.endswith("(stream)")):
      yield (name, K, "input-ends")
  # every stage once more over a long run: internal batching or buffering that only starts after
  # tens or hundreds of items would read ahead there
  for name in CAT:
    yield (name, min(run.pick(300, 1200), {"limit100": 100, "limit(100.0)": 100, "stream*list": 59}.get(name, 10 ** 9)), "step")


def needs(stage, k):
  n = stage.need(k)
  return list(n) if isinstance(n, tuple) else [n] * stage.nsrc


def endless_memory(limit=64):
  """Endless filter memory with a tripwire: only the first (order, at most order + 1) items are
  needed, so a filter call that reads 64 of them is draining the iterable."""
  for i in itertools.count():
    if i >= limit:
      raise Overread("the memory iterable was read past %d items (only the first order+1 are needed)" % limit)
    yield float(i % 3)


def run_chain(names, K, mode="step"):
  stages = [CAT[n] for n in names]
  first = stages[0]
  def need(k):
    # outputs of the last stage -> items of the first stage's sources
    for st in reversed(stages[1:]):
      k = needs(st, k)[0]
    return needs(first, k)
  exact = all(st.exact for st in stages)
  slack = 0 if exact else 0
  srcs = [CountingSource(itertools.count(), name="src%d" % i) for i in range(first.nsrc)]
  lim = need(K)
  for s, l in zip(srcs, lim):
    s.limit = l + 1            # tripwire: one item beyond the allowance of the last output
  key = "lazy:" + "|".join(names)
  nt = len(names) > 1 or first.nsrc > 1 or need(3)[0] != 3
  try:
    out = first.build(*srcs)
    for st in stages[1:]:
      out = st.build(out)
  except Overread as exc:
    return bad(key + ":construction", "the stage read its source while being built", 0, str(exc), nt)
  except Exception as exc:
    return bad(key + ":build-exception:" + type(exc).__name__, "building the stage raised", None, str(exc)[:200], nt)
  if any(s.attempts for s in srcs):
    return bad(key + ":construction", "building a stage must read nothing from its source",
               [0] * len(srcs), [s.attempts for s in srcs], nt)
  it = iter(out)
  fin = stages[-1].finite if len(stages) == 1 else None
  for k in range(1, K + 1):
    try:
      next(it)
    except StopIteration:
      if fin is not None and k == fin + 1:
        got, exp = [s.pulls for s in srcs], need(k)
        if got != exp:
          return bad(key + ":pulls-at-end", "ending the stream must not read beyond what its outputs needed",
                     {"outputs": fin, "pulls": exp}, got, nt)
        return R(None, True, ("finite", fin))
      return bad(key + ":ended", "the stage ended although its source is endless", "output %d" % k, "StopIteration", nt)
    except Overread as exc:
      return bad(key + ":overread", "the stage read more source items than it needs for %d outputs" % k,
                 need(k), str(exc), nt)
    except Exception as exc:
      return bad(key + ":exception:" + type(exc).__name__, "the stage raised", None, str(exc)[:200], nt)
    got = [s.pulls for s in srcs]
    exp = need(k)
    ok = (got == exp) if exact else all(g <= e for g, e in zip(got, exp))
    if not ok:
      return bad(key + ":pulls", "after %d outputs the stage must have read exactly what defines them" % k,
                 {"outputs": k, "pulls": exp}, got, nt)
  return R(None, nt, (len(names), first.nsrc))


def run_stage(case):
  name, K, mode = case
  if mode == "step":
    return run_chain([name], K)
  st = CAT[name]
  if mode == "input-ends":
    # a filter whose coefficients / design parameters are Streams, on an input that ends: the coefficient
    # sources were read once per output sample - not once more for a sample that never came
    n = 5
    srcs = [CountingSource(list(range(n)), name="input")] + \
           [CountingSource(itertools.count(), name="coef%d" % i) for i in range(1, st.nsrc)]
    for s_ in srcs[1:]:
      s_.limit = n + 2
    key = "lazy:%s:input-ends" % name
    try:
      got = list(st.build(*srcs))
    except Overread as exc:
      return bad(key, "a coefficient source was read far past the end of the input", n, str(exc))
    pulls = [s_.pulls for s_ in srcs[1:]]
    if len(got) != n or any(p != n for p in pulls):
      return bad(key, "when the input ends after n samples, each coefficient / parameter source has been read n times",
                 {"outputs": n, "pulls": [n] * len(pulls)}, {"outputs": len(got), "pulls": pulls})
    return R(None, True, "input-ends")
  # a finite run: limit(n) downstream must not make the stage read ahead when it is drained
  if not st.chain:
    return R(None, False, "n/a")
  n = 5
  srcs = [CountingSource(itertools.count(), name="src")]
  srcs[0].limit = needs(st, n)[0] + 1
  key = "lazy:%s|limit%d:drained" % (name, n)
  try:
    out = Stream(st.build(*srcs)).limit(n)
    got = list(out)
  except Overread as exc:
    return bad(key, "draining a limited stream read past what its outputs need", needs(st, n)[0], str(exc))
  if len(got) != n or srcs[0].pulls != needs(st, n)[0]:
    return bad(key, "draining limit(n) of a stage must read exactly what n outputs need",
               {"outputs": n, "pulls": needs(st, n)[0]}, {"outputs": len(got), "pulls": srcs[0].pulls})
  return R(None, True, "drained")


def gen_chains(run):
  K = run.pick(6, 10)
  comp = [n for n, s in CAT.items() if s.chain and s.kind == "num"]
  firsts = [n for n, s in CAT.items() if s.kind == "num" and s.exact and s.finite is None and n != "stream*list"
            and "freq_response" not in n]
  lasts = [n for n, s in CAT.items() if s.nsrc == 1 and s.exact and not s.valuedep and s.finite is None
           and (s.chain or s.kind in ("blocks", "bytes", "tuples")) and n not in ("stream*list",)]
  for a in run.rot(firsts):
    for b in lasts:
      if CAT[b].nsrc != 1:
        continue
      yield ([a, b], K)
  if run.tier != "quick":
    for a in comp:
      for b in comp:
        for c in lasts:
          yield ([a, b, c], K)


def run_chain_case(case):
  names, K = case
  if any(CAT[n].nsrc != 1 for n in names[1:]):
    return R(None, False, "n/a")
  return run_chain(list(names), K)


KINDS = OrderedDict([
  ("stages", Kind(gen_stages, run_stage, chunk=4, rule="each catalogue stage, step by step and drained through limit(n)")),
  ("chains", Kind(gen_chains, run_chain_case, chunk=40, rule="compositions of stages; allowances compose")),
])
