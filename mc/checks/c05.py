"""
C05 - Filter algebra is system algebra.

E1 with formal samples and exact rational functions: all pairs / triples of a
pool of causal filters and all expression trees up to a depth bound are built
with the real ZFilter operators; (i) composite filters are run on symbolic
input and compared with the composition of the parts' outputs and with the
reference rational function's difference equation, (ii) numpoly/denpoly are
compared by cross-multiplication with a boring dict-of-Fractions rational
arithmetic, (iii) ==, != and hash are checked for mutual consistency on all
pairs, including equal filters built through different routes.
"""
from collections import OrderedDict
from fractions import Fraction as F
import itertools, operator
from ..runner import Kind, R, bad
from ..exact import Q, Sym, sym, syms, NonLinear
from ..ref.ratfun import RF, P, pmul

from audiolazy import ZFilter, LinearFilter, z, CascadeFilter, ParallelFilter, Stream

PROPERTY = "C05"
LEVEL = "exploration"
RULE = ("all ordered pairs of the signal pool (dyadic coefficients) under + - * / and scalar "
        "operations; all triples of a sub-pool for cascade/parallel and associativity/"
        "distributivity; all expression trees up to the depth bound over {+,-,*,/,**n,f(g)} on "
        "a pool with general rational coefficients; all pairs of the equality pool. Non-trivial: "
        "at least one operand has feedback or more than one term")
ASSUMPTIONS = [
  "signal-level runs use dyadic coefficients so that the float text of a coefficient in the "
  "generated loop is exact; rational-function-level checks use arbitrary Fractions and never run a signal",
  "zero initial conditions (zero=Q(0), default memory) for signal-level identities",
  "== is the library's structural equality; the property only demands mutual consistency of ==, != and hash",
]

NS = 8   # samples of symbolic input


def coef(s):
  f = F(s)
  return int(f) if f.denominator == 1 else f


def mk(spec):
  b, a = spec
  return ZFilter([coef(c) for c in b], [coef(c) for c in a])


def mkF(spec):
  """Same filter with every coefficient a Fraction (exact under ** and /)."""
  b, a = spec
  return ZFilter([F(c) for c in b], [F(c) for c in a])


def rf(spec):
  b, a = spec
  return RF({k: F(c) for k, c in enumerate(b)}, {k: F(c) for k, c in enumerate(a)})


def lib_rf(filt):
  return RF({k: F(v) for k, v in filt.numpoly.terms()},
            {k: F(v) for k, v in filt.denpoly.terms()})


def apply_rf(r, x):
  """Difference equation of the rational function on samples x (zero state)."""
  num, den = r.causal_form()
  if num and min(num) < 0:
    raise ValueError("non-causal")
  a0 = den[0]
  y = []
  for n in range(len(x)):
    acc = Sym(0)
    for k, c in num.items():
      if n - k >= 0:
        acc = acc + c * x[n - k]
    for k, c in den.items():
      if k >= 1 and n - k >= 0:
        acc = acc - c * y[n - k]
    y.append(acc / a0)
  return y


def run_sig(filt, x):
  return [Sym.lift(v) for v in filt(list(x), zero=Q(0))]


def eqs(a, b):
  return len(a) == len(b) and all(u is not None and u == v for u, v in zip(a, b))


DENS = [["1"], ["1", "-1"], ["2", "1"], ["1", "0", "1"], ["1", "-1/2"]]


def signal_pool(tier):
  nums = [["1"], ["2"], ["-1"], ["0", "1"], ["1", "1"], ["1", "-1"], ["2", "1"], ["0", "0", "1"]]
  if tier == "mini":
    return [[n, d] for n in nums for d in DENS]
  nums += [["1/2"], ["-1", "2"], ["1", "0", "1"], ["1", "-2", "1"], ["0", "2"], ["1/2", "1"],
           ["0", "1", "1"], ["2", "-1", "1/2"], ["-1", "0", "2"], ["1", "1", "1"]]
  if tier != "quick":
    seen = set(map(tuple, nums))
    for t in itertools.product(["-1", "0", "1", "2"], repeat=3):
      t = list(t)
      while t and t[-1] == "0":
        t.pop()
      if t and tuple(t) not in seen:
        seen.add(tuple(t))
        nums.append(t)
  return [[n, d] for n in nums for d in DENS]


def tree_pool(tier):
  pool = [[["1"], ["1"]], [["0", "1"], ["1"]], [["1", "1"], ["1"]], [["1", "-1/3"], ["1"]],
          [["2"], ["1", "-1/2"]], [["1", "2"], ["3", "1"]], [["0", "3"], ["1"]],
          [["1"], ["1", "0", "1/4"]]]
  if tier != "quick":
    pool += [[["-3/2"], ["1"]], [["0", "0", "2"], ["1", "1"]], [["1", "0", "-1"], ["2", "-1", "1/3"]],
             [["5", "1"], ["1", "-2/3"]]]
  return pool


def bounds(run):
  return {"signal_pool": len(signal_pool(run.tier)), "tree_pool": len(tree_pool("thorough")), "tree_depth2_subpool": run.pick(4, 7),
          "tree_depth": run.pick(2, 2), "triple_subpool": run.pick(10, 16),
          "input_samples": NS, "scalars": ["2", "-1", "1/2", "0"], "powers": [0, 1, 2, 3, -1],
          "delays": [0, 1, 2, 3, 4]}


def nontrivial(*specs):
  return any(len(s[1]) > 1 or sum(1 for c in s[0] if F(c) != 0) > 1 for s in specs)


# ------------------------------------------------------------------ pairs
def gen_pairs(run):
  pool = signal_pool(run.tier)
  for i in run.rot(range(len(pool))):
    for j in range(len(pool)):
      yield (pool[i], pool[j])


def run_pair(case):
  fs, gs = case
  x = syms("x", NS)
  nt = nontrivial(fs, gs)
  try:
    f, g = mk(fs), mk(gs)
    yf, yg = run_sig(f, x), run_sig(g, x)
    rF, rG = rf(fs), rf(gs)
    checks = [
      ("add", lambda: mk(fs) + mk(gs), [a + b for a, b in zip(yf, yg)], rF + rG),
      ("sub", lambda: mk(fs) - mk(gs), [a - b for a, b in zip(yf, yg)], rF - rG),
      ("mul", lambda: mk(fs) * mk(gs), run_sig(mk(fs), run_sig(mk(gs), x)), rF * rG),
      ("mul-commuted", lambda: mk(fs) * mk(gs), run_sig(mk(gs), run_sig(mk(fs), x)), rF * rG),
      ("div-mul", lambda: (mk(fs) / mk(gs)) * mk(gs), yf, rF),
    ]
    for name, build, composed, ref in checks:
      h = build()
      got = run_sig(h, x)
      if not eqs(got, composed):
        return bad("algebra:%s:signal" % name,
                   "output of the composite filter differs from the composition of the parts' outputs",
                   composed[:4], got[:4], nt)
      if not eqs(got, apply_rf(ref, x)):
        return bad("algebra:%s:reference" % name,
                   "output of the composite filter differs from the reference rational function",
                   apply_rf(ref, x)[:4], got[:4], nt)
      if not lib_rf(h).same(ref):
        return bad("algebra:%s:polys" % name,
                   "numpoly/denpoly differ from the reference rational function (cross-multiplication)",
                   {"num": ref.num, "den": ref.den},
                   {"num": dict(h.numpoly.terms()), "den": dict(h.denpoly.terms())}, nt)
    # commutativity at the polynomial level
    if not lib_rf(mk(fs) + mk(gs)).same(lib_rf(mk(gs) + mk(fs))):
      return bad("algebra:add:commutative", "f+g and g+f differ", None, None, nt)
    if not lib_rf(mk(fs) * mk(gs)).same(lib_rf(mk(gs) * mk(fs))):
      return bad("algebra:mul:commutative", "f*g and g*f differ", None, None, nt)
    # one pair of filter OBJECTS through every operator in sequence: results as before, and the
    # operands themselves unchanged afterwards
    for name, h, ref in (("add", f + g, rF + rG), ("sub", f - g, rF - rG), ("mul", f * g, rF * rG),
                         ("div", f / g, rF / rG), ("add", g + f, rF + rG), ("neg", -f, RF.const(0) - rF),
                         ("pow2", f ** 2, rF * rF), ("scale", 3 * f, RF.const(3) * rF)):
      if not lib_rf(h).same(ref):
        return bad("algebra:%s:reused-operands" % name, "operator result wrong when the operand objects "
                   "have been used in other operations before", {"num": ref.num, "den": ref.den}, str(h), nt)
    if not lib_rf(f).same(rF) or not lib_rf(g).same(rG) or not eqs(run_sig(f, x), yf) or not eqs(run_sig(g, x), yg):
      return bad("algebra:operand-mutated", "filter arithmetic modified one of its operands", None, [str(f), str(g)], nt)
    q = mk(fs) / mk(fs)
    if not lib_rf(q).same(RF({0: 1})):
      return bad("algebra:div:self", "f/f is not 1", 1, str(q), nt)
  except NonLinear as exc:
    return bad("algebra:nonlinear", "a sample was used non-linearly", None, str(exc), nt)
  return R(None, nt, (len(fs[1]) > 1, len(gs[1]) > 1))


# ---------------------------------------------------------------- singles
SCALARS = ["2", "-1", "1/2", "0"]


def gen_single(run):
  for s in run.rot(signal_pool(run.tier)):
    yield s


def run_single(case):
  fs = case
  x = syms("x", NS)
  nt = nontrivial(fs)
  yf = run_sig(mk(fs), x)
  rF = rf(fs)
  for cs in SCALARS:
    c = coef(cs)
    forms = [("c*f", lambda: c * mk(fs), [c * v for v in yf], RF.const(c) * rF),
             ("f*c", lambda: mk(fs) * c, [c * v for v in yf], RF.const(c) * rF),
             ("c+f", lambda: c + mk(fs), [c * u + v for u, v in zip(x, yf)], RF.const(c) + rF),
             ("f+c", lambda: mk(fs) + c, [c * u + v for u, v in zip(x, yf)], RF.const(c) + rF),
             ("c-f", lambda: c - mk(fs), [c * u - v for u, v in zip(x, yf)], RF.const(c) - rF),
             ("f-c", lambda: mk(fs) - c, [v - c * u for u, v in zip(x, yf)], rF - RF.const(c))]
    if c != 0:
      forms.append(("f/c", lambda: mk(fs) / c, [v / c for v in yf], rF / RF.const(c)))
      forms.append(("c/f*f", lambda: (c / mk(fs)) * mk(fs), [c * u for u in x], RF.const(c)))
    for name, build, exp, ref in forms:
      h = build()
      got = run_sig(h, x)
      if not eqs(got, exp):
        return bad("algebra:scalar:%s" % name, "scalar operation differs from scaling/offsetting the output",
                   {"c": cs, "y": exp[:4]}, got[:4], nt)
      if not lib_rf(h).same(ref):
        return bad("algebra:scalar:%s:polys" % name, "numpoly/denpoly differ from the reference",
                   {"c": cs}, str(h), nt)
  for name, h, exp in (("neg", -mk(fs), [-v for v in yf]), ("pos", +mk(fs), yf)):
    if not eqs(run_sig(h, x), exp):
      return bad("algebra:unary:%s" % name, "unary operator wrong", exp[:4], run_sig(h, x)[:4], nt)
  # powers: f applied n times
  cur = list(x)
  for n in range(0, 10):
    h = mkF(fs) ** n if n >= 4 else mk(fs) ** n       # larger exponents: exact Fractions, polynomials only
    if n < 4:
      got = run_sig(h, x)
      if not eqs(got, cur):
        return bad("algebra:pow", "f**n is not f applied n times", {"n": n, "y": cur[:4]}, got[:4], nt)
      cur = run_sig(mk(fs), cur)
    if not lib_rf(h).same(rF ** n):
      return bad("algebra:pow:polys", "f**n polynomials differ from the n-fold product", n, str(h), nt)
    if n in (5, 6) and (len(fs[1]) - 1) * n >= 10:
      # the product has ten or more feedback taps: run it, against the factor applied n times
      cur_n = list(x)
      for _ in range(n):
        cur_n = run_sig(mk(fs), cur_n)
      got_n = run_sig(mk(fs) ** n, x)
      if not eqs(got_n, cur_n):
        return bad("algebra:pow:high-order", "f**%d (feedback order %d) is not f applied %d times" % (n, (len(fs[1]) - 1) * n, n),
                   cur_n[:4], got_n[:4], nt)
    if n >= 2 and F(fs[0][0]) != 0 and not lib_rf(mkF(fs) ** -n).same((rF ** n).inv()):
      return bad("algebra:pow:negative", "f**-n is not the reciprocal of the n-fold product", n, str(mkF(fs) ** -n), nt)
  if F(fs[0][0]) != 0:
    inv = mk(fs) ** -1
    got = run_sig(inv, yf)
    if not eqs(got, list(x)):
      return bad("algebra:pow:inverse", "f**-1 does not undo f", [str(v) for v in x[:4]], got[:4], nt)
    if not lib_rf(inv).same(rF.inv()):
      return bad("algebra:pow:inverse:polys", "f**-1 is not the reciprocal", None, str(inv), nt)
  # delays
  for k in range(0, 5):
    exp = [Sym(0)] * min(k, NS) + yf[:max(NS - k, 0)]
    for name, h in (("f*z**-k", mk(fs) * z ** -k), ("z**-k*f", z ** -k * mk(fs))):
      got = run_sig(h, x)
      if not eqs(got, exp):
        return bad("algebra:delay", "multiplying by z**-k must delay the output by k samples",
                   {"k": k, "y": exp[:5]}, got[:5], nt)
    got = run_sig(z ** -k, x)
    if not eqs(got, [Sym(0)] * min(k, NS) + list(x[:max(NS - k, 0)])):
      return bad("algebra:delay:pure", "z**-k must delay by k samples", k, got[:5], nt)
    # the same delay written with an integral float exponent, alone, through a second power and as a bank part
    for name, build in (("z**-float(k)", lambda: z ** -float(k)), ("(z**-1)**float(k)", lambda: (z ** -1) ** float(k)),
                        ("cascade(z**-float(k))", lambda: CascadeFilter(z ** -float(k), ZFilter([1]))),
                        ("z**-float(k) * 1", lambda: z ** -float(k) * 1)):
      try:
        h = build()
        got = run_sig(h, x)
        numer = list(h.numerator) if not isinstance(h, CascadeFilter) else None
      except Exception as exc:
        return bad("algebra:delay:float-exponent", "%s raised" % name, {"k": k}, type(exc).__name__ + ": " + str(exc)[:160], nt)
      if not eqs(got, [Sym(0)] * min(k, NS) + list(x[:max(NS - k, 0)])):
        return bad("algebra:delay:float-exponent", "%s must delay by k samples" % name, k, got[:5], nt)
  return R(None, nt, len(fs[1]) > 1)


# ---------------------------------------------------------------- triples
def gen_triples(run):
  pool = signal_pool(run.tier)
  n = run.pick(10, 16)
  # a sub-pool in which denominators repeat (shared feedback) and differ
  sub = [pool[(7 * i) % len(pool)] for i in range(n - 2)]
  sub += [[["1", "1"], ["1", "-1/2"]], [["2"], ["1", "-1/2"]]]
  for t in itertools.product(run.rot(sub), sub, sub):
    yield list(t)


def run_triple(case):
  specs = case
  x = syms("x", NS)
  nt = nontrivial(*specs)
  F3 = [mk(s) for s in specs]
  R3 = [rf(s) for s in specs]
  outs = [run_sig(mk(s), x) for s in specs]
  # members that are not filter objects: a bank casts numbers (gains) and coefficient lists to filters, in
  # any position and for any kind of input sequence
  for label, member, asfilt in (("2", 2, lambda: ZFilter([2])), ("-1", -1, lambda: ZFilter([-1])), ("0", 0, lambda: ZFilter([0])),
                                ("1/2", F(1, 2), lambda: ZFilter([F(1, 2)])), ("[1, 2]", [1, 2], lambda: ZFilter([1, 2]))):
    for pos in ("first", "last"):
      for ik, conv in (("list", list), ("tuple", tuple), ("Stream", lambda v: Stream(list(v))), ("iterator", iter)):
        mem = list(member) if isinstance(member, list) else member
        order = [mem, mk(specs[0])] if pos == "first" else [mk(specs[0]), mem]
        ref_parts = [asfilt(), mk(specs[0])] if pos == "first" else [mk(specs[0]), asfilt()]
        exp_c = run_sig(ref_parts[1], run_sig(ref_parts[0], x))
        exp_p = [a_ + b_ for a_, b_ in zip(run_sig(asfilt(), x), outs[0])]
        for bank, exp in ((CascadeFilter, exp_c), (ParallelFilter, exp_p)):
          try:
            got = [Sym.lift(v) for v in bank(*order)(conv(list(x)), zero=Q(0))]
          except Exception as exc:
            return bad("bank:plain-member:exception", "%s with the plain member %s (%s) on a %s input raised" % (bank.__name__, label, pos, ik),
                       None, repr(exc)[:200], nt)
          if not eqs(got, exp):
            return bad("bank:plain-member", "%s with the plain member %s (%s) on a %s input is not the bank of the member cast "
                       "to a filter" % (bank.__name__, label, pos, ik), exp[:4], got[:4], nt)
  # a bank is a list: after it is edited in place (a member replaced - also by one with the same delays -
  # appended, removed) its polynomials and its output are those of the CURRENT members
  for bank, comb in ((ParallelFilter, lambda u, v: u + v), (CascadeFilter, lambda u, v: u * v)):
    try:
      bk = bank(mk(specs[0]), mk(specs[1]))
      bk.numpoly, bk.denpoly                     # read once (anything kept from this read must not survive the edit)
      list(bk(list(x), zero=Q(0)))
      bk[0] = mk(specs[2])
      steps = [("member 0 replaced", comb(R3[2], R3[1]), [2, 1])]
      lib = RF({k: F(v) for k, v in bk.numpoly.terms()}, {k: F(v) for k, v in bk.denpoly.terms()})
      ok = lib.same(steps[0][1])
      if ok:
        bk.append(mk(specs[0]))
        lib = RF({k: F(v) for k, v in bk.numpoly.terms()}, {k: F(v) for k, v in bk.denpoly.terms()})
        steps.append(("then a member appended", comb(comb(R3[2], R3[1]), R3[0]), [2, 1, 0]))
        ok = lib.same(steps[-1][1])
      if ok:
        del bk[1]
        lib = RF({k: F(v) for k, v in bk.numpoly.terms()}, {k: F(v) for k, v in bk.denpoly.terms()})
        steps.append(("then member 1 removed", comb(R3[2], R3[0]), [2, 0]))
        ok = lib.same(steps[-1][1])
      if not ok:
        return bad("bank:edited-in-place:polys", "%s: numpoly / denpoly after the bank was edited in place (%s) are not those "
                   "of its current members" % (bank.__name__, steps[-1][0]), {"num": steps[-1][1].num, "den": steps[-1][1].den},
                   {"num": str(bk.numpoly), "den": str(bk.denpoly)}, nt)
      got = [Sym.lift(v) for v in bk(list(x), zero=Q(0))]
      members = steps[-1][2]
      if bank is ParallelFilter:
        exp = [sum((outs[i][j] for i in members), Sym(0)) for j in range(NS)]
      else:
        exp = list(x)
        for i in members:
          exp = run_sig(mk(specs[i]), exp)
      if not eqs(got, exp):
        return bad("bank:edited-in-place:signal", "%s: the output after the bank was edited in place is not that of its current "
                   "members" % bank.__name__, exp[:4], got[:4], nt)
    except Exception as exc:
      return bad("bank:edited-in-place:exception", "%s edited in place raised" % bank.__name__, None, repr(exc)[:200], nt)
  for n in (1, 2, 3):
    parts = [mk(s) for s in specs[:n]]
    for route, cas in (("args", CascadeFilter(*parts)), ("list", CascadeFilter(list(parts)))):
      got = [Sym.lift(v) for v in cas(list(x), zero=Q(0))]
      exp = list(x)
      for s in specs[:n]:
        exp = run_sig(mk(s), exp)
      if not eqs(got, exp):
        return bad("cascade:signal", "CascadeFilter output is not the parts applied in sequence",
                   exp[:4], got[:4], nt)
      prod = R3[0]
      for r in R3[1:n]:
        prod = prod * r
      libc = RF({k: F(v) for k, v in cas.numpoly.terms()}, {k: F(v) for k, v in cas.denpoly.terms()})
      if not libc.same(prod):
        return bad("cascade:polys", "CascadeFilter numpoly/denpoly are not the product of the parts",
                   {"num": prod.num, "den": prod.den}, {"num": str(cas.numpoly), "den": str(cas.denpoly)}, nt)
      pf = parts[0]
      for p in parts[1:]:
        pf = pf * p
      if not eqs(got, run_sig(pf, x)):
        return bad("cascade:product", "CascadeFilter output differs from the product filter's output",
                   run_sig(pf, x)[:4], got[:4], nt)
    for share in (False, True):
     # share=True: equal specifications are ONE filter object appearing several times
     cache = {}
     parts = [cache.setdefault(repr(s), mk(s)) if share else mk(s) for s in specs[:n]]
     if share and len(cache) == n:
       continue
     par = ParallelFilter(*parts)
     got = [Sym.lift(v) for v in par(list(x), zero=Q(0))]
     exp = [sum((o[i] for o in outs[:n]), Sym(0)) for i in range(NS)]
     if not eqs(got, exp):
       return bad("parallel:signal", "ParallelFilter output is not the sum of the parts' outputs",
                  exp[:4], got[:4], nt)
     tot = R3[0]
     for r in R3[1:n]:
       tot = tot + r
     libp = RF({k: F(v) for k, v in par.numpoly.terms()}, {k: F(v) for k, v in par.denpoly.terms()})
     if not libp.same(tot):
       return bad("parallel:polys", "ParallelFilter numpoly/denpoly are not the sum of the parts"
                  + (" (one filter object listed several times)" if share else ""),
                  {"num": tot.num, "den": tot.den}, {"num": str(par.numpoly), "den": str(par.denpoly)}, nt)
     casc = CascadeFilter(*parts)
     prod = R3[0]
     for r in R3[1:n]:
       prod = prod * r
     libc = RF({k: F(v) for k, v in casc.numpoly.terms()}, {k: F(v) for k, v in casc.denpoly.terms()})
     if not libc.same(prod):
       return bad("cascade:polys", "CascadeFilter numpoly/denpoly are not the product of the parts",
                  {"num": prod.num, "den": prod.den}, {"num": str(casc.numpoly), "den": str(casc.denpoly)}, nt)
    parts = [mk(s) for s in specs[:n]]
    par = ParallelFilter(*parts)
    got = [Sym.lift(v) for v in par(list(x), zero=Q(0))]
    exp = [sum((o[i] for o in outs[:n]), Sym(0)) for i in range(NS)]
    if not eqs(got, exp):
      return bad("parallel:signal", "ParallelFilter output is not the sum of the parts' outputs",
                 exp[:4], got[:4], nt)
    tot = R3[0]
    for r in R3[1:n]:
      tot = tot + r
    libp = RF({k: F(v) for k, v in par.numpoly.terms()}, {k: F(v) for k, v in par.denpoly.terms()})
    if not libp.same(tot):
      return bad("parallel:polys", "ParallelFilter numpoly/denpoly are not the sum of the parts",
                 {"num": tot.num, "den": tot.den}, {"num": str(par.numpoly), "den": str(par.denpoly)}, nt)
  # banks nested in banks of the other kind (and of the same kind): the structure must be kept
  f, g, h = specs
  rfs = {"f": R3[0], "g": R3[1], "h": R3[2]}
  nests = [("cascade(f, parallel(g, h))", lambda: CascadeFilter(mk(f), ParallelFilter(mk(g), mk(h))), R3[0] * (R3[1] + R3[2])),
           ("parallel(f, cascade(g, h))", lambda: ParallelFilter(mk(f), CascadeFilter(mk(g), mk(h))), R3[0] + R3[1] * R3[2]),
           ("cascade([parallel([f, g]), h])", lambda: CascadeFilter([ParallelFilter([mk(f), mk(g)]), mk(h)]), (R3[0] + R3[1]) * R3[2]),
           ("parallel([cascade([f, g]), h])", lambda: ParallelFilter([CascadeFilter([mk(f), mk(g)]), mk(h)]), R3[0] * R3[1] + R3[2]),
           ("cascade(cascade(f, g), h)", lambda: CascadeFilter(CascadeFilter(mk(f), mk(g)), mk(h)), R3[0] * R3[1] * R3[2]),
           ("parallel(parallel(f, g), h)", lambda: ParallelFilter(ParallelFilter(mk(f), mk(g)), mk(h)), R3[0] + R3[1] + R3[2])]
  for name, build, want in nests:
    try:
      bank = build()
      got = [Sym.lift(v) for v in bank(list(x), zero=Q(0))]
    except Exception as exc:
      return bad("nested:exception:" + type(exc).__name__, "%s raised" % name, None, str(exc)[:200], nt)
    try:
      libn = RF({k: F(v) for k, v in bank.numpoly.terms()}, {k: F(v) for k, v in bank.denpoly.terms()})
    except TypeError:
      libn = None        # a parallel bank holding a bank has no numpoly/denpoly (its parts cannot be added): not demanded
    if libn is not None and not libn.same(want):
      return bad("nested:polys", "%s: numpoly/denpoly are not those of the nested structure" % name,
                 {"num": want.num, "den": want.den}, {"num": str(bank.numpoly), "den": str(bank.denpoly)}, nt)
    try:
      exp = apply_rf(want, x)
    except (ValueError, ZeroDivisionError):
      continue
    if not eqs(got, exp):
      return bad("nested:signal", "%s: output is not that of the nested structure" % name, exp[:4], got[:4], nt)
  # field laws on three operands (library results compared with each other)
  laws = [("add-assoc", lambda: (mk(f) + mk(g)) + mk(h), lambda: mk(f) + (mk(g) + mk(h))),
          ("mul-assoc", lambda: (mk(f) * mk(g)) * mk(h), lambda: mk(f) * (mk(g) * mk(h))),
          ("distributive", lambda: mk(f) * (mk(g) + mk(h)), lambda: mk(f) * mk(g) + mk(f) * mk(h)),
          ("div-distributive", lambda: (mk(f) + mk(g)) / mk(h), lambda: mk(f) / mk(h) + mk(g) / mk(h))]
  for name, l, r in laws:
    if not lib_rf(l()).same(lib_rf(r())):
      return bad("algebra:law:" + name, "field law violated by the library's own results", str(l()), str(r()), nt)
  return R(None, nt, tuple(len(s[1]) > 1 for s in specs))


def gen_empty(run):
  for L in (0, 1, 4):
    for zk in ("default", "Q0", "sym"):
      yield (L, zk)


def run_empty(case):
  L, zk = case
  x = syms("x", L)
  kw = {} if zk == "default" else {"zero": Q(0) if zk == "Q0" else sym("zr")}
  zero = 0. if zk == "default" else kw["zero"]
  got = list(ParallelFilter()(list(x), **kw))
  if len(got) != L or any(not (v == zero) for v in got):
    return bad("parallel:empty", "the empty ParallelFilter must output the zero value per input", [zero] * L, got)
  got = list(CascadeFilter()(list(x), **kw))
  if not eqs([Sym.lift(v) for v in got], list(x)):
    return bad("cascade:empty", "the empty CascadeFilter is the identity", x, got)
  return R(None, L > 0, L)


# ------------------------------------------------------------------ trees
OPS2 = ["+", "-", "*", "/", "subst"]
OPS1 = ["neg", "pow2", "pow3", "inv", "pow0"]


def trees(depth, nleaves):
  """All expression trees up to the depth, as nested lists."""
  if depth == 0:
    for i in range(nleaves):
      yield ["leaf", i]
    return
  for t in trees(depth - 1, nleaves):
    yield t
  subs = list(trees(depth - 1, nleaves))
  for op in OPS1:
    for t in subs:
      if depth_of(t) == depth - 1:
        yield [op, t]
  for op in OPS2:
    for a in subs:
      for b in subs:
        if max(depth_of(a), depth_of(b)) == depth - 1:
          yield [op, a, b]


def depth_of(t):
  if t[0] == "leaf":
    return 0
  return 1 + max(depth_of(s) for s in t[1:])


def gen_trees(run):
  pool = tree_pool("thorough")
  # depth 1 on the whole pool, depth 2 on a sub-pool
  for t in trees(1, len(pool)):
    yield (t, "full")
  n2 = run.pick(4, 7)
  for t in trees(2, n2):
    if depth_of(t) == 2:
      yield (t, "sub")


def eval_tree(t, leaves, ops):
  if t[0] == "leaf":
    return leaves(t[1])
  args = [eval_tree(s, leaves, ops) for s in t[1:]]
  return ops[t[0]](*args)


LIB_OPS = {"+": operator.add, "-": operator.sub, "*": operator.mul, "/": operator.truediv,
           "subst": lambda f, g: f(g), "neg": operator.neg, "pow2": lambda f: f ** 2,
           "pow3": lambda f: f ** 3, "inv": lambda f: f ** -1, "pow0": lambda f: f ** 0}
REF_OPS = {"+": operator.add, "-": operator.sub, "*": operator.mul, "/": operator.truediv,
           "subst": lambda f, g: f.subst(g), "neg": operator.neg, "pow2": lambda f: f ** 2,
           "pow3": lambda f: f ** 3, "inv": lambda f: f.inv(), "pow0": lambda f: f ** 0}


def run_tree(case):
  t, which = case
  pool = tree_pool("thorough")
  try:
    ref = eval_tree(t, lambda i: rf(pool[i]), REF_OPS)
  except ZeroDivisionError:
    try:
      eval_tree(t, lambda i: mkF(pool[i]), LIB_OPS)
    except Exception:
      return R(None, False, "zero-division")
    return R(None, False, "zero-division-not-raised")   # property says nothing about 1/0
  try:
    lib = eval_tree(t, lambda i: mkF(pool[i]), LIB_OPS)
  except Exception as exc:
    return bad("tree:exception:" + type(exc).__name__, "evaluating the filter expression raised",
               {"num": ref.num, "den": ref.den}, str(exc)[:200])
  if not isinstance(lib, ZFilter):
    return bad("tree:type", "filter expression did not give a ZFilter", "ZFilter", type(lib).__name__)
  if not lib_rf(lib).same(ref):
    return bad("tree:%s" % t[0], "filter expression differs from the reference rational function "
               "(compared by cross-multiplication)", {"num": ref.num, "den": ref.den},
               {"num": dict(lib.numpoly.terms()), "den": dict(lib.denpoly.terms())})
  return R(None, depth_of(t) >= 1, t[0])


# --------------------------------------------------------------- equality
def eq_pool(tier):
  specs = signal_pool("mini")[:20] + tree_pool(tier)[:6] + [[["1", "2"], ["1"]], [["1", "3"], ["1"]],
          [["1", "2"], ["1", "1"]], [["2", "4"], ["2"]], [["0"], ["1"]]]
  out = []
  for s in specs:
    for route in ("list", "dict", "zexpr", "float", "Fraction", "LinearFilter", "cast", "dict-reversed", "zexpr-reversed"):
      out.append((s, route))
  return out


def build_route(spec, route):
  b, a = spec
  if route == "list":
    return mk(spec)
  if route == "dict":
    return ZFilter({k: coef(c) for k, c in enumerate(b)}, {k: coef(c) for k, c in enumerate(a)})
  if route == "zexpr":
    num = sum((coef(c) * z ** -k for k, c in enumerate(b)), 0 * z)
    den = sum((coef(c) * z ** -k for k, c in enumerate(a)), 0 * z)
    return num / den
  if route == "dict-reversed":
    # the same terms inserted highest delay first: storage order must not matter to == / != / hash
    return ZFilter({k: coef(c) for k, c in reversed(list(enumerate(b)))},
                   {k: coef(c) for k, c in reversed(list(enumerate(a)))})
  if route == "zexpr-reversed":
    num = sum((coef(c) * z ** -k for k, c in reversed(list(enumerate(b)))), 0 * z)
    den = sum((coef(c) * z ** -k for k, c in reversed(list(enumerate(a)))), 0 * z)
    return num / den
  if route == "float":
    return ZFilter([float(F(c)) for c in b], [float(F(c)) for c in a])
  if route == "Fraction":
    return mkF(spec)
  if route == "LinearFilter":
    return LinearFilter([coef(c) for c in b], [coef(c) for c in a])
  return ZFilter(LinearFilter([coef(c) for c in b], [coef(c) for c in a]))


def dyadic(spec):
  return all(F(c).denominator & (F(c).denominator - 1) == 0 for c in spec[0] + spec[1])


def gen_equality(run):
  pool = eq_pool(run.tier)
  for i in run.rot(range(len(pool))):
    for j in range(len(pool)):
      yield (pool[i], pool[j])


def run_equality(case):
  (s1, r1), (s2, r2) = case
  f, g = build_route(s1, r1), build_route(s2, r2)
  e, n = (f == g), (f != g)
  if not isinstance(e, bool) or not isinstance(n, bool):
    return bad("equality:type", "== and != must give booleans", "bool", [type(e).__name__, type(n).__name__])
  if e == n:
    return bad("equality:exclusive", "exactly one of f==g and f!=g must hold",
               {"f": str(f), "g": str(g)}, {"==": e, "!=": n})
  if e and hash(f) != hash(g):
    return bad("equality:hash", "equal filters must hash equally", None, [hash(f), hash(g)])
  # structurally identical specifications must be equal whatever the route
  # (float routes only when every coefficient is dyadic, i.e. exactly representable)
  same_spec = (rf(s1).num == rf(s2).num and rf(s1).den == rf(s2).den)
  exact_routes = all(r != "float" or dyadic(s) for s, r in ((s1, r1), (s2, r2)))
  if same_spec and exact_routes and not e:
    return bad("equality:routes", "the same filter built through two routes must compare equal",
               {"routes": [r1, r2], "spec": s1}, {"==": e})
  if not same_spec and e and exact_routes:
    return bad("equality:distinct", "filters with different coefficients compare equal",
               {"specs": [s1, s2]}, {"==": e})
  return R(None, True, (e, same_spec))


# -------------------------------------------------------------- linearize
def gen_linearize(run):
  for k in range(0, 4):
    for th in ("0", "1/4", "1/2", "3/4"):
      for c in ("1", "2", "-1/2"):
        for where in ("num", "den", "both"):
          yield (k, th, c, where)


def run_linearize(case):
  k, th, cs, where = case
  th, c = F(th), F(cs)
  d = float(k + th)
  cc = float(c)
  def poly(*pairs):
    out = {}
    for p, v in pairs:
      out[p] = out.get(p, F(0)) + v
    return out
  if where == "num":
    f = cc * z ** -d
    ref = RF(poly((k, c * (1 - th)), (k + 1, c * th)))
  elif where == "den":
    f = 1 / (1 + cc * z ** -(d + 1))
    ref = RF({0: 1}, poly((0, F(1)), (k + 1, c * (1 - th)), (k + 2, c * th)))
  else:
    f = (1 + cc * z ** -d) / (1 - cc * z ** -(d + 1))
    ref = RF(poly((0, F(1)), (k, c * (1 - th)), (k + 1, c * th)),
             poly((0, F(1)), (k + 1, -c * (1 - th)), (k + 2, -c * th)))
  lin = f.linearize()
  if not isinstance(lin, ZFilter):
    return bad("linearize:type", "linearize must return a ZFilter", "ZFilter", type(lin).__name__)
  if any(not isinstance(p, int) for p, v in list(lin.numpoly.terms()) + list(lin.denpoly.terms())):
    return bad("linearize:powers", "linearize must leave integer delays only", None, str(lin))
  if not lib_rf(lin).same(ref):
    return bad("linearize:value", "fractional delay k+t must become (1-t)z^-k + t z^-(k+1)",
               {"num": ref.num, "den": ref.den}, str(lin))
  x = syms("x", NS)
  got = run_sig(lin, x)
  if not eqs(got, apply_rf(ref, x)):
    return bad("linearize:signal", "linearised filter output differs from the interpolated delays",
               apply_rf(ref, x)[:5], got[:5])
  return R(None, th != 0, (where, th != 0))


# ------------------------------------------- exactness through every operator
BIG = 2 ** 60 + 1


def exact_cases():
  """(name, builder of the library filter, exact numerator, exact denominator as {delay: Fraction})."""
  T = OrderedDict()
  f = lambda: 1 + BIG * z ** -1
  T["(f/z^-1)*z^-1"] = (lambda: (f() / z ** -1) * z ** -1, {0: 1, 1: BIG}, {0: 1})
  T["ZFilter(b,[0,1])*z^-1"] = (lambda: ZFilter([1, BIG], [0, 1]) * z ** -1, {0: 1, 1: BIG}, {0: 1})
  T["f*z/z"] = (lambda: f() * z / z, {0: 1, 1: BIG}, {0: 1})
  T["f+f-f"] = (lambda: f() + f() - f(), {0: 1, 1: BIG}, {0: 1})
  T["f*3*Fraction(1,3)"] = (lambda: f() * 3 * F(1, 3), {0: 1, 1: BIG}, {0: 1})      # (f / 3 is a true division: float by design)
  T["(g/z^-1*z^-1)*(1/3+z^-1)"] = (lambda: ((1 + z ** -1) / z ** -1 * z ** -1) * (F(1, 3) + z ** -1),
                                   {0: F(1, 3), 1: F(4, 3), 2: 1}, {0: 1})
  T["(1/3+z^-1)/(z^-2)*z^-2"] = (lambda: (F(1, 3) + z ** -1) / z ** -2 * z ** -2, {0: F(1, 3), 1: 1}, {0: 1})
  T["ZFilter([1/3,1],[0,0,2])*2z^-2"] = (lambda: ZFilter([F(1, 3), 1], [0, 0, 2]) * (2 * z ** -2), {0: F(1, 3), 1: 1}, {0: 1})
  T["f**2"] = (lambda: f() ** 2, {0: 1, 1: 2 * BIG, 2: BIG * BIG}, {0: 1})
  T["f(z^2)"] = (lambda: f()(z ** 2), {0: 1, 2: BIG}, {0: 1})
  T["cascade(f, z^-1)"] = (lambda: CascadeFilter(f(), z ** -1), {1: 1, 2: BIG}, {0: 1})
  T["parallel(f, f)"] = (lambda: ParallelFilter(f(), f()), {0: 2, 1: 2 * BIG}, {0: 1})
  return T


def gen_exact(run):
  for name in exact_cases():
    yield (name,)


def run_exact(case):
  """Exact coefficients (ints beyond 2**53, non-dyadic Fractions) stay exact through the operators, the
  delay normalisation included: the polynomials equal the reference as rational numbers, and integer
  input gives the exact integer output."""
  name = case[0]
  build, num, den = exact_cases()[name]
  try:
    h = build()
    got = RF({k: F(v) for k, v in h.numpoly.terms()}, {k: F(v) for k, v in h.denpoly.terms()})
  except Exception as exc:
    return bad("exact:exception:" + type(exc).__name__, "%s raised" % name, None, str(exc)[:200], True)
  want = RF({k: F(v) for k, v in num.items()}, {k: F(v) for k, v in den.items()})
  if not got.same(want):
    return bad("exact:polys", "%s: coefficients were rounded (exact ints / Fractions must stay exact)" % name,
               {"num": {k: str(v) for k, v in want.num.items()}}, {"num": str(h.numpoly), "den": str(h.denpoly)}, True)
  if all(F(v).denominator == 1 for v in list(num.values()) + list(den.values())):
    x = [3, -1, 4, 1, -5, 9]
    y = [sum(c * (x[n - k] if n - k >= 0 else 0) for k, c in num.items()) for n in range(len(x))]
    try:
      out = list(build()(list(x), zero=0))
    except Exception as exc:
      return bad("exact:exception:" + type(exc).__name__, "%s raised when run" % name, None, str(exc)[:200], True)
    if out != y:
      return bad("exact:signal", "%s: integer input through integer coefficients must give the exact integer output" % name,
                 [str(v) for v in y], [str(v) for v in out], True)
  return R(None, True, name)


KINDS = OrderedDict([
  ("pairs", Kind(gen_pairs, run_pair, chunk=8, rule="ordered pairs of the signal pool; + - * / on symbolic input")),
  ("single", Kind(gen_single, run_single, chunk=1, rule="scalars, unary, powers (incl. -1), delays per filter")),
  ("triples", Kind(gen_triples, run_triple, chunk=4, rule="triples of the sub-pool: cascade/parallel of 1..3 parts, field laws")),
  ("empty", Kind(gen_empty, run_empty, chunk=3, rule="empty cascade/parallel")),
  ("trees", Kind(gen_trees, run_tree, chunk=50, rule="expression trees vs reference rational functions; non-trivial: depth >= 1")),
  ("equality", Kind(gen_equality, run_equality, chunk=500, rule="all pairs of (filter, construction route)")),
  ("linearize", Kind(gen_linearize, run_linearize, chunk=6, rule="fractional delays k+t; non-trivial: t != 0")),
  ("exactness", Kind(gen_exact, run_exact, chunk=1, rule="expressions over filters with ints > 2**53 and non-dyadic Fractions, incl. the delay normalisation; exact comparison")),
])
