"""
C17 - Audio playback delivers every sample once, in order, and always shuts down.

E3: stateless exploration of thread schedules of the real ``lazy_io`` (private
copy, virtual ``threading``, recording fake PyAudio backend).  For every main
program over {play, pause, resume, stop, close} within the bound, *all*
schedules with at most B deviations (pre-emptions of an enabled thread, or
refusing to yield at a device write) are executed to completion - iterative
context bounding - and every execution is checked: bytes per device stream,
device call protocol, termination of close(), deadlock / livelock freedom.
"""
from collections import OrderedDict
import itertools, struct, os, time
from ..runner import Kind, R, bad, REPO
from ..sched import core

PROPERTY = "C17"
LEVEL = "model_checking"
RULE = ("all main programs (players x control operations x wait x with-block/explicit close x "
        "channels) within the tier bound; for each, every schedule with at most B deviations "
        "from the default (run the current thread until it blocks, yield at device writes); "
        "a schedule is non-trivial when it contains at least one pre-emption")
ASSUMPTIONS = [
  "CPython with the GIL: attribute reads/writes are atomic; scheduling points are the virtual "
  "threading operations, backend calls and every line touching an attribute assigned or mutated "
  "outside __init__ (AST scan of the current lazy_io.py)",
  "the fake backend is PyAudio-compatible and strict: writing to a stopped or closed stream raises",
  "endless audio only with wait=False; audio iterables do not raise; device format 'f'",
  "AudioIO.__del__ (GC-timed close) is removed from the private class",
]

CHUNK = 2
_state = {"sched": None}
VT = core.make_threading(lambda: _state["sched"])
LIO, MODFILE = core.load_lazy_io(REPO, VT)
LINE_POINTS, SHARED_NAMES = core.shared_attribute_lines(MODFILE)


def bounds(run):
  return {"chunk_size": CHUNK, "audios": list(AUDIOS), "line_points": sorted(LINE_POINTS),
          "shared_attributes": {k: sorted(set(v)) for k, v in SHARED_NAMES.items()},
          "tiers": TIERS[run.tier]}


AUDIOS = OrderedDict([("empty", 0), ("one", 2), ("twohalf", 5), ("endless", None), ("monitor", None),
                      ("tuple-twohalf", 5), ("stream-twohalf", 5), ("iter-twohalf", 5), ("deque-one", 2)])
CONTAINER_AUDIOS = ("tuple-twohalf", "stream-twohalf", "iter-twohalf", "deque-one")     # the same samples in other containers
# "monitor": the played iterable is the manager's own input, io.record() - endless, frame j holds 500 + j


def audio_items(kind, p, channels):
  n = AUDIOS[kind]
  base = 100.0 * (p + 1)
  if n is None:
    return (base + j for j in itertools.count())
  n = n * channels
  items = [base + j for j in range(n)]
  if kind.startswith("tuple"): return tuple(items)
  if kind.startswith("stream"):
    from audiolazy import Stream
    return Stream(items)
  if kind.startswith("iter"): return iter(items)
  if kind.startswith("deque"):
    from collections import deque
    return deque(items)
  return items


def expected_items(kind, p, channels, upto=None):
  n = AUDIOS[kind]
  base = 100.0 * (p + 1)
  per = CHUNK * channels
  if kind == "monitor":
    return [500.0 + j for j in range(upto)]
  if n is None:
    return [base + j for j in range(upto)]
  n = n * channels
  items = [base + j for j in range(n)]
  pad = (-n) % per
  return items + [0.0] * pad


# ------------------------------------------------------------- one execution
class Outcome(object):
  pass


THISFILE = __file__


def state_key(sched):
  """Canonical state at a decision point (stateful search).  A thread's continuation is
  determined by its code position in lazy_io / this harness (co_name, f_lasti of every such
  frame on its stack) and by the shared objects listed here; the only hidden local state, the
  position of a player's chunk generator, equals the number of chunks its device received."""
  import sys as _sys
  out = _state["out"]
  frames = _sys._current_frames()
  ths = []
  for t in sched.threads:
    if not t.started or t.finished:
      ths.append((t.vid, "new" if not t.started else "fin"))
      continue
    f = frames.get(t.os_thread.ident)
    sig = []
    while f is not None:
      fn = f.f_code.co_filename
      if (fn == MODFILE or fn == THISFILE) and f.f_code.co_name != "state_key":
        sig.append((f.f_code.co_name, f.f_lasti))
      f = f.f_back
    ths.append((t.vid, t.pending[0] if t.pending else None, t.pending[4] if t.pending else None, tuple(sig)))
  objs = tuple((o.label, getattr(getattr(o, "owner", None), "vid", None) if hasattr(o, "owner") else None,
                getattr(o, "flag", None), getattr(o, "count", None), getattr(o, "value", None),
                tuple(t["notified"] for t in getattr(o, "_waiters", ()))) for o in VT._objects)
  io = getattr(out, "io", None)
  iost = (None,) if io is None else (io.finished, len(io._threads), len(io._recordings))
  players = tuple((p.halting, p in io._threads if io is not None else None) for p in out.players)
  devs = tuple((len(st.chunks), st.running, st.closed) for b in out.registry for st in b.all_streams)
  term = tuple(b.terminated for b in out.registry)
  return (tuple(ths), objs, iost, players, devs, term, out.pc, tuple(sorted(out.notes.items())))


def run_schedule(cfg, choices, horizon=900, stateful=False):
  """Execute the program under the given choice prefix.  Returns an Outcome."""
  program, wait, use_with, channels = cfg
  # channels "1d": one channel, and the chunk size is not passed to play(): it comes from chunks.size,
  # which the user (here: the harness) changed after the module was imported
  default_size = isinstance(channels, str)
  channels = int(str(channels).rstrip("d"))
  saved_size = type(LIO.chunks).size
  type(LIO.chunks).size = CHUNK if default_size else saved_size
  try:
    return _run_schedule(cfg, choices, horizon, stateful, program, wait, use_with, channels, default_size)
  finally:
    type(LIO.chunks).size = saved_size


def _run_schedule(cfg, choices, horizon, stateful, program, wait, use_with, channels, default_size):
  VT._reset_labels()
  sched = core.Scheduler(choices, horizon=horizon, line_points=LINE_POINTS, modfile=MODFILE)
  if stateful:
    sched.state_fn = state_key
  _state["sched"] = sched
  registry = []
  core.FakePyAudio.current = (lambda: _state["sched"], registry)
  out = Outcome()
  _state["out"] = out
  out.registry = registry
  out.pc = 0
  out.notes = {}
  out.players = []
  out.main_exc = None
  out.stopped = set()

  def body(io):
    for op in program:
      if op[0] == "play":
        p = len(out.players)
        kw = {"chunk_size": CHUNK}
        if channels != 1:
          kw["channels"] = channels
        if default_size:
          del kw["chunk_size"]        # the documented default: chunks.size, as the user set it
        audio = io.record(chunk_size=CHUNK) if op[1] == "monitor" else audio_items(op[1], p, channels)
        out.players.append(io.play(audio, **kw))
      elif op[0] == "play-fails":
        # an environment answer: the backend refuses to open the device ("open"), or the caller asks for a
        # format the device table does not have ("format"); the refused play raises and leaves nothing behind
        try:
          if op[1] == "open":
            registry[0].fail_next_open = True
            io.play([1.0, 2.0, 3.0], chunk_size=CHUNK)
          else:
            io.play([1.0, 2.0, 3.0], chunk_size=CHUNK, dfmt="d")
          out.notes["play_fails"] = "accepted"
        except core.Abort:
          raise
        except Exception as exc:
          out.notes["play_fails"] = type(exc).__name__
      elif op[0] == "pause":
        out.players[op[1]].pause()
      elif op[0] == "resume":
        out.players[op[1]].play()
      elif op[0] == "stop":
        out.stopped.add(op[1])
        out.players[op[1]].stop()
      elif op[0] == "close":
        io.close()
      out.pc += 1

  def main():
    try:
      if use_with:
        with LIO.AudioIO(wait) as io:
          out.io = io
          body(io)
      else:
        io = LIO.AudioIO(wait)
        out.io = io
        body(io)
        io.close()
      out.notes["closed"] = True
      # a second close is a no-op, and play must be refused afterwards
      io.close()
      out.notes["second_close"] = True
      for attempt in (1, 2):       # refused every time (a refused play must not leave the manager locked)
        try:
          io.play([1.0, 2.0], chunk_size=CHUNK)
          out.notes["play_after_close"] = "accepted"
          break
        except VT.ThreadError:
          out.notes["play_after_close"] = "refused"
    except core.Abort:
      raise
    except BaseException as exc:
      out.main_exc = exc

  mt = sched.spawn("main", main)
  sched.start_thread(mt)
  out.status = "done"
  try:
    sched.run()
  except core.Deadlock:
    out.status = "deadlock"
  except core.Livelock:
    out.status = "livelock"
  out.blocked = sched.blocked_summary()
  out.sched = sched
  out.backends = registry
  return out


def judge(cfg, out):
  """None or (key, what, expected, observed)."""
  program, wait, use_with, channels = cfg
  channels = int(str(channels).rstrip("d"))
  s = out.sched
  if out.status == "deadlock":
    def role(b):
      name, op = b.split(":", 1)
      return ("main" if name == "main" else "player") + "@" + op.split("(")[0]
    shape = "+".join(sorted(role(b) for b in out.blocked))
    # D10b: close(wait=True) joins a player which the program itself left paused
    last = {}
    for op in program:
      if op[0] in ("pause", "resume", "stop"):
        last[op[1]] = op[0]
    # (parked = blocked in whatever primitive the player waits on for its resume: an Event today)
    waiting_players = [b for b in out.blocked if any(w in b for w in ("event.wait", "cond.wait", "sem.acquire"))]
    stopped_by_program = set(op[1] for op in program if op[0] == "stop")
    # "left paused": the last control operation is a pause AND the program never stopped that
    # player (a stopped player has to finish whatever is done to it afterwards)
    left_paused = [i for i, v in last.items() if v == "pause" and i not in stopped_by_program]
    if wait and waiting_players and left_paused and len(waiting_players) <= len(left_paused) \
       and any("thread.join" in b for b in out.blocked):
      return ("deadlock:close(wait=True)-joins-a-player-left-paused",
              "close() cannot return: it waits for a player that the program paused and never resumed",
              "close() returns", {"blocked": out.blocked})
    return ("deadlock:" + shape, "deadlock: no thread is enabled but some have not finished",
            "every schedule terminates", {"blocked": out.blocked})
  if out.status == "livelock":
    return ("livelock", "execution exceeded the step horizon (threads keep running without finishing)",
            "termination", {"steps": s.steps, "blocked": out.blocked})
  if out.main_exc is not None:
    return ("main-exception:" + type(out.main_exc).__name__, "the main thread's calls raised",
            None, repr(out.main_exc)[:300])
  for t in s.threads:
    if t.exc is not None:
      return ("thread-exception:" + type(t.exc).__name__, "a player thread died with an exception",
              None, {"thread": t.name, "exc": repr(t.exc)[:300]})
    if not t.finished:
      return ("thread-alive", "a thread is still alive after close()", None, t.name)
  if out.notes.get("play_after_close") != "refused":
    return ("play-after-close", "play() after close() must raise", "ThreadError", out.notes.get("play_after_close"))
  if len(out.backends) != 1:
    return ("backend-instances", "exactly one backend instance per manager", 1, len(out.backends))
  pa = out.backends[0]
  if pa.terminated != 1:
    return ("terminate-count", "the backend must be terminated exactly once", 1, pa.terminated)
  ev = pa.events
  if ev[-1][0] != "terminate":
    return ("terminate-order", "terminate must come after every stream close", None, ev[-6:])
  nplay = sum(1 for op in program if op[0] == "play")
  outputs = [st for st in pa.all_streams if not st.is_input]
  if len(outputs) != nplay:
    return ("streams-opened", "one output device stream per play()", nplay, len(outputs))
  if any(op[0] == "play-fails" for op in program) and out.notes.get("play_fails") == "accepted":
    return ("refused-play-accepted", "a play() the backend / format table refuses must raise", "an exception", "accepted")
  for st in pa.all_streams:
    if st.is_input and (st.errors or st.closed != 1):
      return ("input-stream", "every input device stream must be closed exactly once, and never read when closed",
              {"closed": 1, "errors": []}, {"closed": st.closed, "errors": st.errors})
  per = CHUNK * channels
  for p, st in enumerate(outputs):
    if st.errors:
      return ("device-protocol", "invalid call on a device stream", None, {"stream": p, "errors": st.errors, "log": st.log[-8:]})
    if st.closed != 1:
      return ("close-count", "every device stream must be closed exactly once", 1, {"stream": p, "closed": st.closed})
    kind = [op[1] for op in program if op[0] == "play"][p]
    got = []
    for data, frames in st.chunks:
      if len(data) != 4 * per or frames != CHUNK:
        return ("chunk-size", "every chunk must hold exactly chunk_size frames", {"bytes": 4 * per, "frames": CHUNK},
                {"bytes": len(data), "frames": frames})
      got.extend(struct.unpack("%df" % per, data))
    exp = expected_items(kind, p, channels, upto=len(got))
    if got != exp[:len(got)]:
      return ("bytes-order", "device bytes are not a prefix of the iterable followed by zero padding "
              "(lost, duplicated or reordered samples)", exp[:len(got) + per], got)
    was_stopped = p in out.stopped
    if not was_stopped and wait and AUDIOS[kind] is not None and len(got) != len(exp):
      return ("bytes-complete", "with wait=True a player that was never stopped must deliver all its audio",
              len(exp), len(got))
  return None


def explore(cfg, bound, max_exec=None):
  """All schedules with at most `bound` deviations.  Returns stats and the
  first violating execution (key, what, expected, observed, choices)."""
  stack = [[]]
  stats = {"executions": 0, "with_preemption": 0, "points_max": 0, "steps_max": 0,
           "deadlocks": 0, "livelocks": 0, "capped": False, "outcomes": set()}
  first = None
  known = None
  while stack:
    prefix = stack.pop()
    out = run_schedule(cfg, prefix)
    s = out.sched
    stats["executions"] += 1
    stats["points_max"] = max(stats["points_max"], len(s.points))
    stats["steps_max"] = max(stats["steps_max"], s.steps)
    dev = [1 if (c != 0 and p["costly"]) else 0 for c, p in zip(s.taken, s.points)]
    if any(dev):
      stats["with_preemption"] += 1
    v = judge(cfg, out)
    chunks = tuple(len(st.chunks) for b in out.backends for st in b.all_streams)
    stats["outcomes"].add((out.status, chunks))
    if v is not None:
      if out.status == "deadlock": stats["deadlocks"] += 1
      if out.status == "livelock": stats["livelocks"] += 1
      if first is None or (first[0].startswith("deadlock:close(wait=True)") and not v[0].startswith("deadlock:close(wait=True)")):
        first = v + (list(s.taken),)
      if not v[0].startswith("deadlock:close(wait=True)"):
        break
    for i in range(len(prefix), len(s.points)):
      p = s.points[i]
      before = sum(dev[:i])
      for alt in range(1, p["n"]):
        cost = before + (1 if p["costly"] else 0)
        if cost > bound:
          continue
        stack.append(list(s.taken[:i]) + [alt])
    if max_exec and stats["executions"] >= max_exec:
      stats["capped"] = bool(stack)
      break
  return stats, first


def explore_stateful(cfg, max_exec=200000):
  """All schedules, with no deviation bound: depth-first search that stops branching as soon as
  a decision point's canonical state has been seen before (all its alternatives were, or will
  be, explored from the first visit)."""
  stack = [[]]
  visited = {}
  stats = {"executions": 0, "states": 0, "deadlocks": 0, "livelocks": 0, "capped": False,
           "outcomes": set(), "revisits": 0}
  first = None
  while stack:
    prefix = stack.pop()
    out = run_schedule(cfg, prefix, stateful=True)
    s = out.sched
    stats["executions"] += 1
    v = judge(cfg, out)
    chunks = tuple(len(st.chunks) for b in out.backends for st in b.all_streams)
    stats["outcomes"].add((out.status, chunks))
    if v is not None:
      if out.status == "deadlock": stats["deadlocks"] += 1
      if out.status == "livelock": stats["livelocks"] += 1
      if first is None or (first[0].startswith("deadlock:close(wait=True)") and not v[0].startswith("deadlock:close(wait=True)")):
        first = v + (list(s.taken),)
      if not v[0].startswith("deadlock:close(wait=True)"):
        break
    for i in range(len(prefix), len(s.points)):
      if i >= len(s.point_keys):
        break
      key = s.point_keys[i]
      cands = s.points[i]["cands"]
      if key in visited:
        if visited[key] != cands:
          return stats, ("harness:state-abstraction", "two executions reached the same canonical state with "
                         "different enabled operations: the state key is too coarse", visited[key], cands, list(s.taken))
        stats["revisits"] += 1
        break
      visited[key] = cands
      for alt in range(1, s.points[i]["n"]):
        stack.append(list(s.taken[:i]) + [alt])
    if stats["executions"] >= max_exec:
      stats["capped"] = bool(stack)
      break
  stats["states"] = len(visited)
  return stats, first


def gen_stateful(run):
  """Finite audios only (an endless player makes the unbounded schedule space infinite)."""
  if run.tier == "quick":
    n1, n2 = 2, 0
  else:
    n1, n2 = 3, 1
  fin = ["empty", "one", "twohalf"]
  for wait in (False, True):
    for prog in programs(1, n1, run.rot(fin)):
      yield ([prog, wait, False, 1],)
    if run.tier != "quick":
      for prog in programs(2, n2, ["one", "twohalf"]):
        yield ([prog, wait, False, 1],)


def run_stateful(case):
  cfg = case[0]
  stats, first = explore_stateful(cfg)
  extra = {"stateful_programs": 1, "stateful_executions": stats["executions"], "stateful_states": stats["states"],
           "stateful_deadlocks": stats["deadlocks"], "max_states_one_program": stats["states"],
           "stateful_capped": int(stats["capped"])}
  outcome = len(stats["outcomes"])
  if first is not None:
    key, what, exp, obs, choices = first
    r = bad(key, what, exp, {"observed": obs, "schedule": choices, "program": cfg[0], "wait": cfg[1]}, True, outcome)
    r.viol["replay_kind"] = "schedule"
    r.viol["replay_case"] = [cfg, choices]
    r.n, r.extra = stats["executions"], extra
    return r
  return R(None, True, outcome, stats["executions"], extra)


# ------------------------------------------------------------------ programs
TIERS = {
  "quick": {"one_player": {"ops": 3, "bound": 2}, "two_players": {"ops": 1, "bound": 1}},
  "thorough": {"one_player": {"ops": 4, "bound": 3}, "two_players": {"ops": 2, "bound": 2},
               "three_players": {"ops": 1, "bound": 1}},
}


def control_sequences(nplayers, nops):
  letters = []
  for i in range(nplayers):
    letters += [("pause", i), ("resume", i), ("stop", i)]
  for n in range(0, nops + 1):
    for seq in itertools.product(letters, repeat=n):
      yield [list(o) for o in seq]


def programs(nplayers, nops, audios, late_play=True):
  """play(a0) [play(a1)...] then control ops; variants with a play after the first control op."""
  for kinds in itertools.product(audios, repeat=nplayers):
    for seq in control_sequences(nplayers, nops):
      yield [["play", k] for k in kinds] + seq
      if late_play and nplayers >= 2 and seq:
        # second player started after the first control operation on player 0
        if all(o[1] == 0 for o in seq[:1]):
          yield [["play", kinds[0]]] + seq[:1] + [["play", k] for k in kinds[1:]] + seq[1:]


def gen_programs(run):
  t = TIERS[run.tier]
  for wait in (False, True):
    audios = [a for a in AUDIOS if a != "monitor" and a not in CONTAINER_AUDIOS and not (wait and a == "endless")]
    for use_with in (False, True):
      for prog in programs(1, t["one_player"]["ops"], run.rot(audios)):
        yield ([prog, wait, use_with, 1], t["one_player"]["bound"])
    a2 = ["one", "twohalf"] + ([] if wait else ["endless"])
    for prog in programs(2, t["two_players"]["ops"], a2):
      yield ([prog, wait, False, 1], t["two_players"]["bound"])
    if "three_players" in t:
      for prog in programs(3, t["three_players"]["ops"], ["one", "twohalf"], late_play=False):
        yield ([prog, wait, False, 1], t["three_players"]["bound"])
  if t["two_players"]["bound"] < 2:
    # a player that ends while the next one is being launched needs two deviations (switch to it, keep it
    # running through its device write): the plain two-player programs at that depth in the quick tier too
    for wait in (False, True):
      yield ([[["play", "one"], ["play", "twohalf"]], wait, False, 1], 2)
      yield ([[["play", "empty"], ["play", "one"]], wait, False, 1], 2)
  if t["two_players"]["ops"] < 2:
    # two players parked at the same time (in either order), then a non-waiting close / a resume of one of them:
    # whoever is woken must be the one that was meant (quick tier; the thorough tier has all two-operation programs)
    for seq in ([["pause", 1], ["pause", 0]], [["pause", 0], ["pause", 1]], [["pause", 1], ["resume", 1]]):
      yield ([[["play", "twohalf"], ["play", "twohalf"]] + seq, False, False, 1], 2)
  # the played iterable in other containers (a tuple, a Stream, a one-shot iterator, a deque)
  for wait in (False, True):
    for a in CONTAINER_AUDIOS:
      yield ([[["play", a]], wait, False, 1], 2)
    yield ([[["play", "tuple-twohalf"], ["pause", 0], ["resume", 0]], wait, True, 1], 1)
  # a play() that fails (device refused by the backend / unknown format) inside a history of good ones
  for wait in (False, True):
    for how in ("open", "format"):
      yield ([[["play-fails", how]], wait, False, 1], 1)
      yield ([[["play", "one"], ["play-fails", how]], wait, True, 1], 2)
      yield ([[["play-fails", how], ["play", "twohalf"], ["pause", 0], ["resume", 0]], wait, False, 1], 2)
  # monitoring: the played iterable is the manager's own recording (endless: wait=False only)
  for use_with in (False, True):
    yield ([[["play", "monitor"]], False, use_with, 1], 2)
    yield ([[["play", "monitor"], ["pause", 0], ["resume", 0]], False, use_with, 1], 2)
    yield ([[["play", "monitor"], ["stop", 0]], False, use_with, 1], 2)
  yield ([[["play", "one"], ["play", "monitor"]], False, False, 1], 1)
  # the chunk size taken from chunks.size (changed by the user after import) instead of an argument
  for wait in (False, True):
    yield ([[["play", "twohalf"]], wait, False, "1d"], 1)
    yield ([[["play", "twohalf"], ["pause", 0], ["resume", 0]], wait, True, "1d"], 2)
    yield ([[["play", "one"], ["play", "twohalf"]], wait, False, "1d"], 1)
  # stereo, explicit close in the middle of the program, no player at all
  for wait in (False, True):
    yield ([[["play", "twohalf"], ["pause", 0], ["resume", 0]], wait, False, 2], 2)
    yield ([[["play", "one"], ["close"], ["stop", 0]], wait, False, 1], 2)
    yield ([[], wait, True, 1], 2)
    yield ([[["play", "twohalf"], ["close"]], wait, True, 1], 2)


def gen_deep(run):
  """An endless player that the program stops (so close() returns for wait=True as well; a stop that
  gets lost shows as a player that never ends), three control operations, one more deviation than
  the general bound of the tier."""
  t = TIERS[run.tier]
  for wait in (False, True):
    for seq in itertools.product([("pause", 0), ("resume", 0), ("stop", 0)], repeat=3):
      if any(o[0] == "stop" for o in seq) or not wait:
        yield ([[["play", "endless"]] + [list(o) for o in seq], wait, False, 1], t["one_player"]["bound"] + 1)


def run_program(case):
  cfg, bound = case
  stats, first = explore(cfg, bound)
  extra = {"programs": 1, "executions": stats["executions"], "executions_with_preemption": stats["with_preemption"],
           "deadlocks": stats["deadlocks"], "livelocks": stats["livelocks"],
           "max_decision_points": stats["points_max"]}
  nt = stats["with_preemption"] > 0
  outcome = len(stats["outcomes"])
  if first is not None:
    key, what, exp, obs, choices = first
    r = bad(key, what, exp, {"observed": obs, "schedule": choices, "program": cfg[0], "wait": cfg[1]},
            nt, outcome)
    r.viol["replay_kind"] = "schedule"
    r.viol["replay_case"] = [cfg, choices]
    r.n, r.extra = stats["executions"], extra
    return r
  return R(None, nt, outcome, stats["executions"], extra)


def run_one_schedule(case):
  """Replay of one recorded schedule, twice, with no explorer involved."""
  cfg, choices = case
  cfg = [[list(o) for o in cfg[0]], cfg[1], cfg[2], cfg[3]]
  res = []
  for _ in range(2):
    out = run_schedule(cfg, list(choices))
    v = judge(cfg, out)
    res.append((v, list(out.sched.taken), [tuple(t) for t in out.sched.trace]))
  if res[0][1:] != res[1][1:] or (res[0][0] is None) != (res[1][0] is None):
    return bad("harness-nondeterminism", "the same schedule gave two different executions", None,
               [str(res[0][0]), str(res[1][0])])
  v = res[0][0]
  if v is None:
    return R(None, True, "ok")
  return bad(v[0], v[1], v[2], {"observed": v[3], "schedule": list(choices),
                                "trace": ["%s:%s(%s)" % (LIOname(t[0]), t[1], t[2]) for t in res[0][2]][-40:]})


def LIOname(vid):
  return "main" if vid == 0 else "player%d" % vid


KINDS = OrderedDict([
  ("programs", Kind(gen_programs, run_program, chunk=1, timeout=3600,
                    rule="one case = one main program; all schedules within the deviation bound are executed")),
  ("deep-endless", Kind(gen_deep, run_program, chunk=1, timeout=3600,
                        rule="an endless player stopped by the program, 3 control operations, deviation bound + 1")),
  ("stateful", Kind(gen_stateful, run_stateful, chunk=1, timeout=3600,
                    rule="one case = one main program with finite audio; ALL schedules (no deviation bound), "
                         "pruned only where the canonical state at a decision point was seen before")),
  ("schedule", Kind(None, run_one_schedule, timeout=120, rule="replay of one recorded schedule")),
])


def main(run):
  k = run.per_kind["programs"]
  ex = k["extra"]
  sf = run.per_kind["stateful"]["extra"]
  run.coverage.update({
    "stateful_search": {"programs": sf.get("stateful_programs", 0), "executions": sf.get("stateful_executions", 0),
                        "canonical_states": sf.get("stateful_states", 0),
                        "max_states_in_one_program": sf.get("max_states_one_program", 0),
                        "capped_programs": sf.get("stateful_capped", 0),
                        "note": "unbounded pre-emptions; finite audios; every alternative at every first-visited "
                                "canonical state is explored"},
    "states": ex["executions"], "transitions": ex["executions"],
    "traces_validated_against_impl": ex["executions"],
    "programs": ex["programs"],
    "schedules_executed": ex["executions"],
    "schedules_with_preemption": ex["executions_with_preemption"],
    "deadlocks": ex["deadlocks"], "livelocks": ex["livelocks"],
    "max_decision_points_in_one_execution": ex["max_decision_points"],
    "explanation": "stateless search: 'states' and 'transitions' both report the number of complete "
                   "executions (schedules) run on the real lazy_io under the controlled scheduler; "
                   "every one of them is a trace of the implementation",
  })
