"""
C19 - Signal generators produce their closed-form sequences and lengths.

E1 over exact rationals: every generator of lazy_synth and the resampler are
enumerated over small parameter alphabets chosen to hit each case split in the
code (integer / fractional / x.5 durations, finish on/off, every
numbers-vs-streams combination and both internal paths of modulo_counter,
negative and zero steps, table sizes/cycles/frequencies, resampling ratios and
orders) and compared with the closed forms of the statement in Q arithmetic
(symbolic samples for the resampler; a float tolerance only for ``sin``).
"""
from collections import OrderedDict
from fractions import Fraction as F
import itertools, math, random as _random
from ..runner import Kind, R, bad
from ..exact import Q, Sym, sym, syms, NonLinear

import audiolazy
from audiolazy import (line, fadein, fadeout, attack, ones, zeros, adsr, impulse, white_noise,
                       gauss_noise, modulo_counter, TableLookup, sinusoid, karplus_strong,
                       resample, Stream, inf, lazy_synth, comb)

PROPERTY = "C19"
LEVEL = "exploration"
RULE = ("each generator x its parameter alphabet (see bounds), every combination enumerated once; "
        "non-trivial: a fractional duration / a Stream argument / a wrapped counter / a "
        "non-integer interpolation position")
ASSUMPTIONS = [
  "parameters are exact rationals (Q) so closed forms hold with equality; values where the closed "
  "form divides by zero (dur = finish, a/d/r = 0) are excluded",
  "modulo streams are constant-valued; resampling ratios are passed as exact rationals",
  "randomness is owned: lazy_synth.random is replaced by a generator answering from {0, 1/2, 1-2**-53}",
]

U = 2.0 ** -53


def bounds(run):
  return {"durations": DURS, "line_values": VALS, "adsr": {"a,d,r": ADR, "s": SUS},
          "modulo_counter": {"start": MC_START, "modulo": MC_MOD, "step": MC_STEP,
                             "outputs": run.pick(24, 60)},
          "table": {"sizes": "1..5", "cycles": [1, 2]},
          "resample": {"lengths": "0..%d" % run.pick(12, 18), "ratios": RATIOS, "orders": [0, 1, 2, 3]}}


def q(s):
  return Q(s)


def fq(v):
  return Q(v).f


def exact_list(vals):
  return [fq(v) for v in vals]


# ------------------------------------------------------------------- line
DURS = ["1/2", "1", "2", "12/5", "5/2", "3", "7/2", "5", "64", "129/2", "2001/2"]
VALS = ["0", "1", "-1", "1/3", "5/2"]


def gen_line(run):
  for dur in run.rot(DURS):
    for b in VALS:
      for e in VALS:
        for finish in (False, True):
          for typ in ("Q", "float"):
            yield (dur, b, e, finish, typ)


def run_line(case):
  dur, b, e, finish, typ = case
  D, B, E = F(dur), F(b), F(e)
  if D == (1 if finish else 0):
    return R(None, False, "excluded")
  n = int(D + F(1, 2))
  exp = [B + i * (E - B) / (D - (1 if finish else 0)) for i in range(n)]
  nt = D.denominator != 1
  list(line(Q(D) + 1, Q(B) - 2, Q(E) + 3, not finish) if D + 1 != (0 if finish else 1) else [])   # decoy call
  if typ == "Q":
    got = list(line(Q(D), Q(B), Q(E), finish=finish)) if finish else list(line(Q(D), Q(B), Q(E)))
    if exact_list(got) != exp:
      return bad("line:value", "line is not begin + i*(end-begin)/(dur-finish) over int(dur+.5) samples", exp, got, nt)
  else:
    got = list(line(float(D), float(B), float(E), finish))
    if len(got) != n or any(abs(g - float(x)) > 8 * U * (1 + abs(float(x))) for g, x in zip(got, exp)):
      return bad("line:float", "float line deviates from the closed form", [float(x) for x in exp], got, nt)
  return R(None, nt, (n, finish))


# ------------------------------------------------- ones / zeros / impulse / fades
def gen_durations(run):
  for name in ("ones", "zeros", "impulse", "fadein", "fadeout", "impulse-custom"):
    for dur in ["0", "1/4", "1/2", "1", "3/2", "2", "12/5", "5/2", "3", "7", None, "inf"]:
      yield (name, dur)


def run_duration(case):
  name, dur = case
  endless = dur is None or dur == "inf"
  arg = None if dur is None else (inf if dur == "inf" else Q(dur))
  D = None if endless else F(dur)
  n = 20 if endless else int(D + F(1, 2))
  if name in ("fadein", "fadeout"):
    if endless or D == 0:
      return R(None, False, "excluded")
    got = list(fadein(arg) if name == "fadein" else fadeout(arg))
    exp = [i / D for i in range(n)] if name == "fadein" else [1 - i / D for i in range(n)]
    if exact_list(got) != exp:
      return bad("fade:value", "fade is not the documented straight line", exp, got)
    return R(None, D.denominator != 1, (name, n))
  fn = {"ones": ones, "zeros": zeros, "impulse": impulse, "impulse-custom": impulse}[name]
  if name == "impulse-custom":
    st = fn(arg, one=Q(7), zero=Q(-1)) if arg is not None else fn(one=Q(7), zero=Q(-1))
    one, zero = 7, -1
  else:
    st = fn(arg) if arg is not None else fn()
    one, zero = 1.0, 0.0
  if not isinstance(st, Stream):
    return bad("duration:type", "generator must return a Stream", "Stream", type(st).__name__)
  got = st.take(25) if endless else list(st)
  if endless and len(got) != 25:
    return bad("duration:endless", "%s() without duration must be endless" % name, 25, len(got))
  if not endless and len(got) != n:
    return bad("duration:length", "%s(dur) must have int(dur+.5) samples" % name, n, len(got))
  if name == "ones":
    exp = [1.0] * len(got)
  elif name == "zeros":
    exp = [0.0] * len(got)
  else:
    exp = ([one] + [zero] * (len(got) - 1)) if got else []
  if [fq(v) for v in got] != [F(v) for v in exp]:
    return bad("duration:value", "%s values wrong" % name, exp, got)
  return R(None, (not endless) and D.denominator != 1, (name, len(got)))


# ------------------------------------------------------------ adsr / attack
ADR = ["1", "2", "5/2"]
SUS = ["0", "1/2", "1"]


def gen_adsr(run):
  for a in ADR:
    for d in ADR:
      for s in SUS:
        for r in ADR:
          for extra in ("0", "1", "5/2"):
            yield ("adsr", a, d, s, r, extra)
        yield ("attack", a, d, s, None, "const")
        yield ("attack", a, d, s, None, "stream")


def run_adsr(case):
  kind, a, d, s, r, extra = case
  A, D, S = F(a), F(d), F(s)
  la, ld = int(A + F(1, 2)), int(D + F(1, 2))
  head = [i / A for i in range(la)] + [1 + i * (S - 1) / D for i in range(ld)]
  nt = A.denominator != 1 or D.denominator != 1
  if kind == "attack":
    if extra == "const":
      got = list(itertools.islice(attack(Q(A), Q(D), Q(S)), la + ld + 6))
      exp = head + [S] * 6
    else:
      tail = [F(1, 7), F(2, 7), F(3, 7)]
      got = list(attack(Q(A), Q(D), Stream([Q(S)] + [Q(t) for t in tail])))
      exp = head + tail
    if exact_list(got) != exp:
      return bad("attack:value", "attack is not the attack line, the decay line and the sustain", exp, got, nt)
    return R(None, nt, ("attack", extra))
  Rr = F(r)
  lr = int(Rr + F(1, 2))
  ls = int(F(extra) + F(1, 2))
  dur = la + ld + lr + F(extra)
  total = int(dur + F(1, 2))
  ls = total - la - ld - lr
  exp = head + [S] * ls + [S - i * S / Rr for i in range(lr)]
  got = list(adsr(Q(dur), Q(A), Q(D), Q(S), Q(Rr)))
  if len(got) != total:
    return bad("adsr:length", "adsr must last int(dur+.5) samples", total, len(got), nt)
  if exact_list(got) != exp:
    return bad("adsr:value", "adsr is not the piecewise-linear A-D-S-R shape", exp, got, nt)
  return R(None, nt, ("adsr", ls))


# -------------------------------------------------------------------- noise
class Seam(_random.Random):
  """random.Random whose random() answers come from an enumerated menu."""
  def __init__(self, menu):
    _random.Random.__init__(self)
    self.menu, self.i = menu, 0
  def random(self):
    v = self.menu[self.i % len(self.menu)]
    self.i += 1
    return v


def gen_noise(run):
  for dur in ["0", "1/2", "1", "5/2", "4", None, "inf"]:
    for lo, hi in (("-1", "1"), ("0", "1"), ("-3", "-2"), ("1/4", "1/4")):
      for menu in ([0.0], [0.5], [1 - 2.0 ** -53], [0.0, 1 - 2.0 ** -53, 0.5]):
        yield ("white", dur, lo, hi, menu)
    yield ("gauss", dur, "0", "1", [0.25, 0.75])


def run_noise(case):
  kind, dur, lo, hi, menu = case
  endless = dur is None or dur == "inf"
  arg = None if dur is None else (inf if dur == "inf" else float(F(dur)))
  n = 12 if endless else int(F(dur) + F(1, 2))
  saved = lazy_synth.random
  lazy_synth.random = Seam(menu)
  try:
    if kind == "white":
      st = white_noise(arg, float(F(lo)), float(F(hi))) if arg is not None else white_noise(low=float(F(lo)), high=float(F(hi)))
    else:
      st = gauss_noise(arg) if arg is not None else gauss_noise()
    got = st.take(12) if endless else list(st)
  finally:
    lazy_synth.random = saved
  if len(got) != n:
    return bad("noise:length", "noise duration wrong", n, len(got))
  if kind == "white":
    l, h = float(F(lo)), float(F(hi))
    if any(not (l <= v <= h) for v in got):
      return bad("noise:range", "uniform noise outside [low, high]", [l, h], got)
    exp = [l + (h - l) * menu[i % len(menu)] for i in range(n)]
    if got != exp:
      return bad("noise:value", "white noise is not uniform(low, high) of the random source", exp, got)
  return R(None, n > 0, (kind, n))


# ----------------------------------------------------------- modulo_counter
MC_START = ["0", "1/3", "-1", "7"]
MC_MOD = ["1", "5/2", "4"]
MC_STEP = ["0", "1", "2/3", "-2/3", "3", "4", "8", "-4", "1/4"]


def gen_modcounter(run):
  for start in MC_START:
    for mod in MC_MOD:
      for step in run.rot(MC_STEP):
        for mask in range(8):
          for vary in (False, True):
            if vary and not (mask & 5):
              continue
            yield (start, mod, step, mask, vary, run.pick(24, 60))
  # long runs: many wraps, many batches of the numbers-only fast path
  for step in ("2/3", "-2/3", "1/4", "3"):
    for mask in range(8):
      yield ("1/3", "5/2", step, mask, bool(mask & 5), run.pick(700, 3000))


def run_modcounter(case):
  start, mod, step, mask, vary, N = case
  S, M, T = F(start), F(mod), F(step)
  starts = [S + (F(i, 3) if vary and (mask & 1) else 0) for i in range(N)]
  steps = [T + (F(i % 4, 2) if vary and (mask & 4) else 0) for i in range(N)]
  plain = (mask + MC_STEP.index(step)) % 2 == 1      # alternate exact class / plain int-Fraction arguments
  conv = (lambda v: int(v) if F(v).denominator == 1 else F(v)) if plain else Q
  def arg(vals, isstream, const):
    if not isstream:
      return conv(const)
    return Stream([conv(v) for v in vals])
  a_start = arg(starts, mask & 1, S)
  a_mod = arg([M] * N, mask & 2, M)
  a_step = arg(steps, mask & 4, T)
  try:
    modulo_counter(Q(S) + 1, Q(M) * 2, Q(T) - 1).take(5)                                   # decoy call
    st = modulo_counter(a_start, a_mod, a_step)
    got = st.take(N)
  except Exception as exc:
    return bad("modulo_counter:exception:" + type(exc).__name__, "modulo_counter raised", None, str(exc)[:200])
  exp = []
  acc = F(0)
  for n in range(N):
    base = starts[n] if (mask & 1) else S
    exp.append((base + acc) % M)
    acc += steps[n] if (mask & 4) else T
  if len(got) != N:
    return bad("modulo_counter:length", "counter ended early", N, len(got))
  if plain:
    # plain int / Fraction arguments meet the library's float constants (0., 256.) and decay to
    # floats: the values are compared on the circle [0, modulo) with a float tolerance
    def off(g, e):
      d = abs(float(g) - float(e)) % float(M)
      return min(d, float(M) - d)
    badk = [i for i, (g, e) in enumerate(zip(got, exp)) if off(g, e) > 1e-9 * (1 + float(M))]
    if badk:
      k = badk[0]
      return bad("modulo_counter:value", "output is not (start + sum of earlier steps) mod modulo "
                 "(plain int/Fraction arguments, float tolerance)",
                 {"n": k, "value": exp[k], "args": [start, mod, step], "streams": mask}, got[k])
    if any(not (-1e-9 <= float(v) < float(M) + 1e-9) for v in got):
      return bad("modulo_counter:range", "output outside [0, modulo)", None, got)
    return R(None, True, (mask, "plain"))
  if exact_list(got) != exp:
    k = next(i for i, (g, e) in enumerate(zip(exact_list(got), exp)) if g != e)
    return bad("modulo_counter:value", "output is not (start + sum of earlier steps) mod modulo",
               {"n": k, "value": exp[k], "args": [start, mod, step], "streams": mask}, got[k])
  if any(not (0 <= v < M) for v in exact_list(got)):
    return bad("modulo_counter:range", "output outside [0, modulo)", None, got)
  wraps = T != 0 and abs(T) * N > M
  return R(None, bool(mask) or wraps, (mask, T < 0, T == 0, M / T > 1 if T else None))


def gen_mc_end(run):
  for mask in range(1, 8):
    for which in (1, 2, 4):
      if mask & which:
        for L in (0, 1, 3):
          yield (mask, which, L)


def run_mc_end(case):
  mask, which, L = case
  def arg(bit, val):
    if not (mask & bit):
      return Q(val)
    n = L if bit == which else 50
    return Stream([Q(val)] * n)
  got = list(modulo_counter(arg(1, 1), arg(2, 5), arg(4, 2)))
  lens = [L if b == which else 50 for b in (1, 2, 4) if mask & b]
  if len(got) != min(lens):
    return bad("modulo_counter:end", "the counter must end with its shortest stream argument", min(lens), len(got))
  return R(None, True, (mask, L))


# ------------------------------------------------- modulo_counter, float arguments
MCF_START = [0.0, -1e-20, -1e-17, -5e-324, 1e-20, 4.999999999999999, -0.5, 7.3, -2.0 ** -54]
MCF_MOD = [5.0, 1.0, 256.0, -5.0]
MCF_STEP = [1.0, 0.3, 2.5, "mod", -1.0, 0.0, 1e-20, -1e-20, "mod/2", "mod/3"]


def gen_mc_float(run):
  for si in range(len(MCF_START)):
    for mi in range(len(MCF_MOD)):
      for ti in range(len(MCF_STEP)):
        yield (si, mi, ti)


def run_mc_float(case):
  """Floats: rounding makes the closed form inexact, but the range [0, modulo) is promised for
  every argument kind and path (a start a rounding error below zero is the documented 'bizarre
  modulo' case: x % m can equal m), and all eight numbers-vs-streams paths agree on the circle."""
  si, mi, ti = case
  S, M = MCF_START[si], MCF_MOD[mi]
  T = {"mod": M, "mod/2": M / 2, "mod/3": M / 3}.get(MCF_STEP[ti], MCF_STEP[ti])
  N = 14
  outs = {}
  for mask in range(8):
    a = Stream([S] * N) if mask & 1 else S
    m = Stream([M] * N) if mask & 2 else M
    t = Stream([T] * N) if mask & 4 else T
    try:
      got = modulo_counter(a, m, t).take(N)
    except Exception as exc:
      return bad("modulo_counter:exception:" + type(exc).__name__, "modulo_counter raised (float arguments)",
                 {"args": [S, M, T], "streams": mask}, str(exc)[:200])
    if len(got) != N:
      return bad("modulo_counter:length", "counter ended early", N, len(got))
    inside = (lambda v: 0 <= v < M) if M > 0 else (lambda v: M < v <= 0)
    k = next((i for i, v in enumerate(got) if not inside(v)), None)
    if k is not None:
      return bad("modulo_counter:range", "output outside [0, modulo) with float arguments",
                 {"n": k, "args": [S, M, T], "streams": mask}, repr(got[k]))
    outs[mask] = got
  A = abs(M)
  for mask in range(1, 8):
    for i, (g, e) in enumerate(zip(outs[mask], outs[0])):
      d = abs(g - e) % A
      if min(d, A - d) > 1e-9 * (1 + A + abs(S)):
        return bad("modulo_counter:paths", "numbers and streams arguments must give the same counter",
                   {"n": i, "args": [S, M, T], "streams": mask, "numbers": e}, g)
  # the oscillator built on it: a phase a rounding error below zero must still interpolate
  if M > 0 and S < 0 and abs(S) < 1e-9:
    tbl = [0., 1., 0., -1.]
    try:
      got = TableLookup(list(tbl))(math.pi / 8, phase=S).take(10)
    except Exception as exc:
      return bad("table:exception:" + type(exc).__name__, "TableLookup call raised for a tiny negative phase",
                 {"phase": S}, str(exc)[:200])
    if any(abs(g - e) > 1e-9 for g, e in zip(got, [0., .25, .5, .75, 1., .75, .5, .25, 0., -.25])):
      return bad("table:value", "TableLookup is not the cyclic linear interpolation of its table", None, got)
  return R(None, True, (S < 0, M < 0, T == 0))


# -------------------------------------------------------------- TableLookup
def gen_table(run):
  for size in (1, 2, 3, 4, 5):
    for cycles in (1, 2):
      for k in ("0", "1", "1/2", "3/4", "-1", "-1/2", "5/2", "7"):
        for ph in ("0", "1", "1/2", "-3/4"):
          yield (size, cycles, k, ph)


def run_table(case):
  size, cycles, k, ph = case
  tbl = [Q(3 * i * i - 4 * i + 1, 2) for i in range(size)]
  t = TableLookup(list(tbl), cycles)
  cycle_length = float(size) / (cycles * 2 * math.pi)
  # choose freq/phase so that step and start index are the exact rationals k and ph
  freq = Q(k) / Q(cycle_length)
  phase = Q(ph) / Q(cycle_length)
  N = 12
  try:
    TableLookup([Q(7)] * size, cycles)(freq * 2, phase + 1).take(3)                          # decoy
    t(freq * 3, phase).take(2)                                                                # same table, other frequency
    got = t(freq, phase).take(N)
  except Exception as exc:
    return bad("table:exception:" + type(exc).__name__, "TableLookup call raised", None, str(exc)[:200])
  exp = []
  for n in range(N):
    idx = (F(ph) + n * F(k)) % size
    lo = math.floor(idx)
    fr_ = idx - lo
    exp.append(tbl[lo].f * (1 - fr_) + tbl[(lo + 1) % size].f * fr_)
  if exact_list(got) != exp:
    return bad("table:oscillator", "oscillator output is not the cyclic linear interpolation of the table "
               "at (phase + n*freq) positions", exp, got)
  # __getitem__
  for idx in (F(0), F(1, 2), F(size) - F(1, 4), F(size), F(2 * size) + F(1, 3), F(size - 1)):
    lo = math.floor(idx)
    fr_ = idx - lo
    e = tbl[lo % size].f * (1 - fr_) + tbl[(lo + 1) % size].f * fr_
    g = t[Q(idx)]
    if fq(g) != e:
      return bad("table:getitem", "table[idx] is not the cyclic linear interpolation", {"idx": idx, "value": e}, g)
  return R(None, F(k).denominator != 1 or F(ph).denominator != 1, (size, cycles))


def gen_table_ops(run):
  for size in (1, 2, 4, 6):
    for op in ("add", "mul", "neg", "scalar", "rscalar", "harmonize", "normalize", "eq", "cycles-mismatch"):
      yield (size, op)


def run_table_op(case):
  size, op = case
  a = [float(i - 1.5) for i in range(size)]
  b = [float(2 * i + 1) for i in range(size)]
  ta, tb = TableLookup(list(a), 1), TableLookup(list(b), 1)
  if op == "add":
    got, exp = (ta + tb).table, [x + y for x, y in zip(a, b)]
  elif op == "mul":
    got, exp = (ta * tb).table, [x * y for x, y in zip(a, b)]
  elif op == "neg":
    got, exp = (-ta).table, [-x for x in a]
  elif op == "scalar":
    got, exp = (ta * 2.5).table, [x * 2.5 for x in a]
  elif op == "rscalar":
    got, exp = (3 - ta).table, [3 - x for x in a]
  elif op == "harmonize":
    h = ta.harmonize({0: 1.0, 1: 0.5})
    got = h.table
    if size % 2 and size > 1:
      return R(None, False, "excluded")   # second partial does not divide the table
    exp = [a[i % size] + 0.5 * a[(2 * i) % size] for i in range(size)]
    if h.cycles != ta.cycles or len(h) != size:
      return bad("table:harmonize:shape", "harmonize must keep size and cycles", [size, 1], [len(h), h.cycles])
  elif op == "normalize":
    n = ta.normalize()
    m = max(abs(x) for x in a)
    got = [abs(v) for v in n.table]
    exp = [abs(x) / m for x in a]
    if max(got) != 1.0:
      return bad("table:normalize:peak", "normalized table must reach 1 in magnitude", 1.0, max(got))
  elif op == "eq":
    if not (ta == TableLookup(list(a), 1)) or (ta != TableLookup(list(a), 1)) or (ta == TableLookup(list(a), 2)):
      return bad("table:eq", "== / != on tables inconsistent", None, None)
    return R(None, True, op)
  else:
    try:
      ta + TableLookup(list(b), 2)
    except ValueError:
      return R(None, True, op)
    return bad("table:cycles", "tables with different cycles must not combine", "ValueError", "accepted")
  if list(got) != exp:
    return bad("table:" + op, "table operator is not element by element", exp, list(got))
  return R(None, size > 1, op)


# ----------------------------------------------------------------- sinusoid
def gen_sinusoid(run):
  for f in (0.0, 0.1, 1.0, math.pi / 2, 3.0, -0.7, 7.5):
    for ph in (0.0, 1.0, -2.0, math.pi):
      yield (f, ph)


def run_sinusoid(case):
  f, ph = case
  N = 200
  got = sinusoid(f, ph).take(N)
  for n, g in enumerate(got):
    e = math.sin(ph + n * f)
    if abs(g - e) > 1e-11 * (1 + n):
      return bad("sinusoid", "sinusoid is not sin(phase + n*freq)", {"n": n, "value": e}, g)
  if len(got) != N:
    return bad("sinusoid:length", "sinusoid must be endless", N, len(got))
  return R(None, f != 0, (f != 0,))


# ------------------------------------------------------------ karplus_strong
def gen_karplus(run):
  for delay in ("2", "3", "7/2", "9/4", "5"):
    for tau in (1.0, 10.0, 2e4, float("inf")):
      for memk in ("list", "callable", "short1", "short-half", "stream", "stream-short1", "tuple-short2", "long", "none"):
        yield (delay, tau, memk)


def run_karplus(case):
  delay, tau, memk = case
  d = float(F(delay))
  freq = 2 * math.pi / d
  real_delay = 2 * math.pi / freq
  alpha = math.e ** (-real_delay / tau)
  D = int(real_delay)
  theta = real_delay - D
  frac = not float(real_delay).is_integer()
  order = D + 1 if frac else D
  mem = [Q(i + 1, 3) * (-1) ** i for i in range(order)]
  calls = []
  def memf(size):
    calls.append(size)
    return list(mem)
  # a memory shorter than the comb's order stands for its OLDEST samples (the filter pads it with the zero
  # value at its left: a one-sample "pluck" comes out first); a longer one is cut to the order
  given = {"short1": mem[:1], "stream-short1": mem[:1], "short-half": mem[:max(1, order // 2)],
           "tuple-short2": mem[:2], "none": [], "long": mem + [Q(5), Q(-7)]}.get(memk, mem)
  arg = {"callable": memf, "stream": Stream(list(given)), "stream-short1": Stream(list(given)),
         "tuple-short2": tuple(given), "none": None}.get(memk, list(given))
  mem = ([Q(0)] * (order - len(given)) + list(given))[:order]
  try:
    got = karplus_strong(freq, tau, memory=arg).take(14)
  except Exception as exc:
    return bad("karplus:exception:" + type(exc).__name__, "karplus_strong raised", None, str(exc)[:200])
  # linearised comb: y[n] = alpha*((1-theta) y[n-D] + theta y[n-D-1]); input is all zeros
  c1 = Q(-alpha) * Q(1. - theta) if frac else Q(-alpha)
  c2 = Q(-alpha) * Q(theta) if frac else Q(0)
  y = []
  def Y(i):
    return y[i] if i >= 0 else mem[-i - 1]
  for n in range(14):
    v = -(Q(float(c1)) * Y(n - D))
    if frac:
      v = v - Q(float(c2)) * Y(n - D - 1)
    y.append(v)
  if [fq(v) for v in got] != [v.f for v in y]:
    return bad("karplus:value", "karplus_strong is not the linearised feedback comb run on its memory",
               y[:6], got[:6])
  if memk == "callable" and calls != [order]:
    return bad("karplus:memory", "callable memory must be asked for the comb's order", [order], calls)
  return R(None, frac, (frac, tau))


# ------------------------------------------------------------------ resample
RATIOS = [("1", "1"), ("1", "2"), ("2", "1"), ("2", "3"), ("3", "2"), ("1", "3"), ("5", "4"), ("7", "2"), ("9", "2"), ("4", "1")]


def lagrange_basis(p, j, t):
  r = F(1)
  for k in range(p + 1):
    if k != j:
      r *= (t - k) / F(j - k)
  return r


def ref_resample(x, steps, p, zero):
  """Statement-level reference: window of p+1 samples starting at ceil(t-(p+1)/2)."""
  N = len(x)
  out = []
  t = F(0)
  th = F(p + 1, 2)
  m = 0
  while True:
    w0 = math.ceil(t - th)
    if w0 + p > N - 1:
      break
    acc = Sym(0)
    for j in range(p + 1):
      xi = x[w0 + j] if w0 + j >= 0 else zero
      acc = acc + lagrange_basis(p, j, t - w0) * xi
    out.append(acc)
    if m >= len(steps):
      break
    t += steps[m]
    m += 1
  return out


def gen_resample(run):
  nmax = run.pick(12, 18)
  for p in (0, 1, 2, 3):
    for old, new in RATIOS:
      for n in list(range(0, nmax + 1)) + ([64, 65, 200] if (old, new) in (("2", "3"), ("3", "2"), ("7", "2"), ("1", "1")) else []):
        for zk in ("Q0", "sym"):
          for mode in ("const", "stream", "stream-short"):
            yield (n, old, new, p, zk, mode)


def run_resample(case):
  n, old, new, p, zk, mode = case
  x = syms("x", n)
  zero = Q(0) if zk == "Q0" else sym("zr")
  step = F(old) / F(new)
  cap = 4 * n + 8
  if mode == "const":
    steps = [step] * cap
    kw = {"old": Q(old), "new": Q(new)}
  else:
    L = cap if mode == "stream" else 3
    steps = [step * (1 if i % 2 == 0 else F(1, 2)) for i in range(L)]
    kw = {"old": Stream([Q(s) for s in steps]), "new": 1}
  exp = ref_resample(x, steps, p, zero)
  if n == 0:
    exp = []
  try:
    list(resample([Q(1), Q(2), Q(4), Q(8)], Q(3), Q(2), order=p, zero=Q(5)))                   # decoy call
    # the same ratio with the neighbouring orders first (anything kept per position / ratio between calls
    # must not leak into a call with another order)
    for p2 in (p + 1, max(p - 1, 1), p + 2):
      if p2 != p:
        list(resample([Q(1), Q(2), Q(4), Q(8), Q(-3), Q(5)], Q(old), Q(new), order=p2, zero=Q(5)))
    xin = [lambda: list(x), lambda: tuple(x), lambda: Stream(list(x)), lambda: iter(list(x)),
           lambda: (v for v in list(x))][(n + p + RATIOS.index((old, new)) + ("const", "stream", "stream-short").index(mode)) % 5]()
    st = resample(xin, order=p, zero=zero, **kw)
    got = []
    for v in st:
      got.append(Sym.lift(v))
      if len(got) > len(exp) + 3:
        break
  except NonLinear as exc:
    return bad("resample:nonlinear", "a sample was used non-linearly", None, str(exc))
  except Exception as exc:
    return bad("resample:exception:" + type(exc).__name__, "resample raised instead of ending with its input",
               {"outputs": len(exp)}, {"exc": type(exc).__name__, "msg": str(exc)[:160]})
  if len(got) != len(exp):
    return bad("resample:length", "resample must end when its input (or ratio stream) does",
               len(exp), {"length": len(got), "tail": got[-2:]})
  for m_, (g, e) in enumerate(zip(got, exp)):
    if g is None or g != e:
      return bad("resample:value", "output is not the order-p Lagrange interpolation of the p+1 "
                 "neighbouring samples at position m*old/new", {"m": m_, "value": e}, g)
  return R(None, step.denominator != 1 or mode != "const", (p, old, new, mode))


# ------------------------------------------------------------ calling routes
from ..routes import routes_agree, seq as rseq
from audiolazy import fadein as _fadein, fadeout as _fadeout


def route_table():
  T = OrderedDict()
  S = lambda vals: (lambda: Stream(list(vals)))
  c = lambda v: (lambda: v)
  T["line"] = (line, [("dur", c(Q(5))), ("begin", c(Q(2))), ("end", c(Q(-3))), ("finish", c(True))], rseq)
  T["fadein"] = (_fadein, [("dur", c(Q(4)))], rseq)
  T["fadeout"] = (_fadeout, [("dur", c(Q(4)))], rseq)
  T["attack"] = (attack, [("a", c(Q(2))), ("d", c(Q(3))), ("s", c(Q(1, 4)))], lambda g: rseq(g, 9))
  T["adsr"] = (adsr, [("dur", c(Q(12))), ("a", c(Q(2))), ("d", c(Q(3))), ("s", c(Q(1, 4))), ("r", c(Q(4)))], rseq)
  T["ones"] = (ones, [("dur", c(Q(7, 2)))], rseq)
  T["zeros"] = (zeros, [("dur", c(Q(7, 2)))], rseq)
  T["impulse"] = (impulse, [("dur", c(Q(4))), ("one", c(Q(7))), ("zero", c(Q(-1)))], rseq)
  T["modulo_counter"] = (modulo_counter, [("start", c(Q(1, 3))), ("modulo", c(Q(5, 2))), ("step", c(Q(2, 3)))], lambda g: rseq(g, 12))
  T["modulo_counter(streams)"] = (modulo_counter, [("start", S([Q(1), Q(2), Q(4), Q(4)])), ("modulo", c(Q(3))), ("step", S([Q(1, 2)] * 6))], rseq)
  T["sinusoid"] = (sinusoid, [("freq", c(0.3)), ("phase", c(1.25))], lambda g: rseq(g, 8))
  T["resample"] = (resample, [("sig", lambda: [Q(1), Q(4), Q(9), Q(16), Q(25), Q(36)]), ("old", c(Q(2))), ("new", c(Q(3))),
                              ("order", c(2)), ("zero", c(Q(5)))], rseq)
  T["TableLookup"] = (lambda *a, **k: TableLookup(*a, **k)(Q(1) / Q(float(4) / (2 * 2 * math.pi)), Q(0)),
                      [("table", lambda: [Q(0), Q(2), Q(0), Q(-2)]), ("cycles", c(2))], lambda g: rseq(g, 8))
  T["TableLookup.__call__"] = (lambda *a, **k: TableLookup([Q(0), Q(2), Q(0), Q(-2)])(*a, **k),
                               [("freq", c(Q(1, 2) / Q(float(4) / (2 * math.pi)))), ("phase", c(Q(1) / Q(float(4) / (2 * math.pi))))],
                               lambda g: rseq(g, 8))
  def seamed(fn):
    def run(*a, **k):
      lazy_synth.random = Seam([0.25, 0.75, 0.5])
      return fn(*a, **k)
    return run
  T["white_noise"] = (seamed(white_noise), [("dur", c(6.0)), ("low", c(2.0)), ("high", c(3.0))], rseq)
  T["gauss_noise"] = (seamed(gauss_noise), [("dur", c(4.0)), ("mu", c(2.0)), ("sigma", c(0.5))], rseq)
  T["karplus_strong"] = (karplus_strong, [("freq", c(2 * math.pi / 3)), ("tau", c(10.0)), ("memory", lambda: [Q(1), Q(-2), Q(3)])],
                         lambda g: [round(float(Q(v).f if hasattr(v, "f") else v), 9) for v in g.take(8)])
  return T


def gen_routes(run):
  for name in route_table():
    yield (name,)


def run_routes(case):
  name = case[0]
  f, spec, canon = route_table()[name]
  saved = lazy_synth.random
  try:
    return routes_agree(name, f, spec, canon)
  finally:
    lazy_synth.random = saved


def gen_types(run):
  from ..routes import struct_params
  try:
    T = route_table()
  except Exception:
    T = {}
  for name, ent in T.items():
    if struct_params(ent[1]):
      yield (name,)


def run_types(case):
  from ..routes import struct_params, types_agree
  ent = route_table()[case[0]]
  return types_agree(case[0], ent[0], ent[1], ent[2], struct_params(ent[1]))


KINDS = OrderedDict([
  ("line", Kind(gen_line, run_line, chunk=100, rule="durations x begin x end x finish x number type")),
  ("durations", Kind(gen_durations, run_duration, chunk=10, rule="ones/zeros/impulse/fades x durations incl. None/inf")),
  ("adsr", Kind(gen_adsr, run_adsr, chunk=20, rule="adsr/attack parameter alphabet")),
  ("noise", Kind(gen_noise, run_noise, chunk=20, rule="noise durations x ranges x random-source answers")),
  ("modulo_counter", Kind(gen_modcounter, run_modcounter, chunk=50,
                          rule="start x modulo x step x 8 numbers-vs-streams masks; non-trivial: a Stream argument or a wrap")),
  ("modulo_counter-float", Kind(gen_mc_float, run_mc_float, chunk=20,
                                rule="(float start, modulo, step) x all 8 argument-kind paths; range and path agreement")),
  ("modulo_counter-end", Kind(gen_mc_end, run_mc_end, chunk=10, rule="shortest stream argument ends the counter")),
  ("table", Kind(gen_table, run_table, chunk=20, rule="table size x cycles x step x phase")),
  ("table-ops", Kind(gen_table_ops, run_table_op, chunk=5, rule="table operators, harmonize, normalize")),
  ("sinusoid", Kind(gen_sinusoid, run_sinusoid, chunk=4, rule="frequency x phase, 200 samples, float tolerance")),
  ("karplus", Kind(gen_karplus, run_karplus, chunk=4, rule="delay x tau x memory kind")),
  ("resample", Kind(gen_resample, run_resample, chunk=20,
                    rule="length x ratio x order x zero x constant/stream ratio; non-trivial: fractional positions")),
  ("call-routes", Kind(gen_routes, run_routes, chunk=1,
                       rule="each function with every documented parameter set: all positional / all keyword / every split must agree")),
  ("param-types", Kind(gen_types, run_types, chunk=1,
                       rule="structural integer parameters given as integral float / Fraction / bool: same result wherever the type is accepted")),
])
