"""
C14 - Window functions obey their periodic/symmetric, symmetry and overlap contracts.

E1: every strategy *and alias* of ``window`` / ``wsymm`` (iterated from the
strategy dictionaries, not listed) x every size up to the bound x a grid of
alpha values (each size is asked for several alphas in sequence in the same
process, and twice, so that history-dependent behaviour shows) is compared with
the documented closed form typed independently, the periodic == symmetric-prefix
relation is checked bit for bit, and the hop-shifted sums are checked for the
windows and hops the statement names.  Tolerances are derived from the rounding
of the cos/sin arguments, not tuned.
"""
from collections import OrderedDict
import math, itertools
from ..runner import Kind, R, bad

from audiolazy import window, wsymm

PROPERTY = "C14"
LEVEL = "exploration"
RULE = ("every (strategy name or alias, size in 1..N) x alpha grid x {window, wsymm}; every "
        "(window, size divisible by the overlap factor) for the hop sums; the alias / cross-reference "
        "table; non-trivial: size >= 3")
ASSUMPTIONS = [
  "float results: symmetry and closed-form agreement within 64 ulp (argument rounding of cos/sin "
  "of k*pi*n/size moves each cosine by at most ~40 ulp), hop sums within 256 ulp, range [-32u, 1+32u]; "
  "the periodic / symmetric-prefix relation is exact (same float expression)",
  "alpha grids: blackman {0.16, 0, 0.1, 0.25, exact-Blackman}, cos {1, 1.5, 2, 3} (for alpha < 1 the "
  "cosine window's end points amplify the rounding of sin(pi) without bound, so symmetry there is "
  "not a float-checkable claim)",
]

U = 2.0 ** -53
pi = math.pi

BLACKMAN_ALPHAS = [0.16, 0.0, 0.1, 0.25, 2.0 * 1430 / 18608]
COS_ALPHAS = [1, 1.5, 2, 3, 0, 4]      # 0: the all-ones window (0.0 ** 0 == 1), end-points included


def closed(name, n, N, alpha):
  """Documented closed form, periodic version (N = size)."""
  t = n / N if N else 0.0
  if name == "hann": return 0.5 * (1 - math.cos(2 * pi * n / N))
  if name == "hamming": return 0.54 - 0.46 * math.cos(2 * pi * n / N)
  if name == "rect": return 1.0
  if name == "bartlett": return 1 - (2.0 / N) * abs(n - N / 2.0)
  if name == "triangular": return 1 - (2.0 / (N + 2)) * abs(n - N / 2.0)
  if name == "blackman":
    return (1 - alpha) / 2 - 0.5 * math.cos(2 * pi * n / N) + (alpha / 2) * math.cos(4 * pi * n / N)
  if name == "cos": return math.sin(pi * n / N) ** alpha
  raise KeyError(name)


def bounds(run):
  return {"sizes": "1..%d" % run.pick(512, 2048), "blackman_alphas": BLACKMAN_ALPHAS,
          "cos_alphas": COS_ALPHAS, "strategies": [list(k) for k in window.keys()]}


def canonical(name):
  for names in window.keys():
    if name in names:
      return names[0]
  raise KeyError(name)


def all_names():
  out = []
  for names in sorted(window.keys()):
    out.extend(names)
  return out


def gen_window(run):
  N = run.pick(512, 2048)
  for name in run.rot(all_names()):
    for size in range(1, N + 1):
      yield (name, size)


def alphas_for(base):
  if base == "blackman": return [None] + BLACKMAN_ALPHAS
  if base == "cos": return [None] + COS_ALPHAS
  return [None]


def run_window(case):
  name, size = case
  base = canonical(name)
  try:
    wf = window[name]
    sf = wsymm[name]
  except KeyError as exc:
    return bad("window:missing-alias", "every strategy name and alias must exist in both window and wsymm",
               name, "KeyError in %s" % ("wsymm" if name in window._keys_dict else "window"))
  if getattr(window, name, None) is not wf or getattr(wsymm, name, None) is not sf:
    return bad("window:attribute", "strategy names must also be attributes", name, None)
  nt = size >= 3
  for alpha in alphas_for(base):
    args = () if alpha is None else (alpha,)
    a = {None: {"blackman": .16, "cos": 1}.get(base)}.get(alpha, alpha)
    try:
      w = wf(size, *args)
      w2 = wf(size, *args)
      s1 = sf(size + 1, *args)
      s = sf(size, *args)
    except Exception as exc:
      return bad("window:exception:" + type(exc).__name__, "window function raised", None, str(exc)[:200], nt)
    if not isinstance(w, list) or len(w) != size or len(s) != size or len(s1) != size + 1:
      return bad("window:length", "a window must be a list of `size` samples", size, [len(w), len(s), len(s1)], nt)
    for lst in (w, s, s1):
      if any(not isinstance(v, float) for v in lst):
        return bad("window:sample-type", "window samples must be real floats",
                   "float", {"alpha": alpha, "types": sorted(set(type(v).__name__ for v in lst))}, nt)
    if w != w2 or w is w2:
      return bad("window:repeatable", "two calls with the same arguments must give equal, independent lists", None, None, nt)
    if w != s1[:size]:
      k = next(i for i in range(size) if w[i] != s1[i])
      return bad("window:periodic-vs-symmetric", "window.X(size) must equal the first size samples of "
                 "wsymm.X(size+1) exactly", {"n": k, "value": s1[k], "alpha": alpha}, w[k], nt)
    if size == 1 and s != [1.0]:
      return bad("window:wsymm1", "wsymm.X(1) must be [1.0]", [1.0], s, nt)
    for n in range(size):
      if abs(s[n] - s[size - 1 - n]) > 64 * U:
        return bad("window:symmetry", "wsymm.X(size) must be symmetric", {"n": n, "alpha": alpha},
                   [s[n], s[size - 1 - n]], nt)
    check_range = not (base == "blackman" and a > 0.25)
    for n in range(size):
      e = closed(base, n, size, a)
      if abs(w[n] - e) > 64 * U:
        return bad("window:closed-form", "sample differs from the documented closed form",
                   {"n": n, "alpha": a, "value": e}, w[n], nt)
      if check_range and not (-32 * U <= w[n] <= 1 + 32 * U):
        return bad("window:range", "window sample outside [0, 1]", "[0,1]", {"n": n, "value": w[n], "alpha": a}, nt)
      if size > 1:
        e = closed(base, n, size - 1, a)
        if abs(s[n] - e) > 64 * U:
          return bad("window:closed-form-symm", "symmetric sample differs from the closed form with size-1",
                     {"n": n, "alpha": a, "value": e}, s[n], nt)
        if check_range and not (-32 * U <= s[n] <= 1 + 32 * U):
          return bad("window:range", "window sample outside [0, 1]", "[0,1]", {"n": n, "value": s[n]}, nt)
    # the caller may modify the returned list without affecting later calls
    if size:
      w[0] = 12345.0
      if wf(size, *args)[0] == 12345.0:
        return bad("window:aliasing", "the returned list is shared with later calls", None, None, nt)
      keep = list(s)
      s[0] = 12345.0
      s[-1] /= 2
      for other in (name, "hann", "rect", "bartlett", "blackman", "cos"):
        oargs = args if other == name else ()
        again = wsymm[other](size, *oargs)
        if again is s or (other == name and again != keep) or 12345.0 in again or (size == 1 and again != [1.0]):
          return bad("window:aliasing", "a symmetric window list changed in place by its caller is shared with later "
                     "calls (wsymm.%s(%d) after wsymm.%s(%d) was modified)" % (other, size, name, size), keep[:4], again[:4], nt)
  return R(None, nt, (base, size % 4))


# --------------------------------------------------------------- hop sums
HALF = ["hann", "hamming", "bartlett", "rect", "hanning", "rectangular", "dirichlet"]
QUARTER = ["hann", "hamming", "blackman"]


def gen_sums(run):
  N = run.pick(512, 2048)
  for size in range(2, N + 1, 2):
    for name in HALF:
      yield (name, size, 2)
    if size % 4 == 0:
      for name in QUARTER:
        yield (name, size, 4)


def run_sums(case):
  name, size, div = case
  hop = size // div
  try:
    w = window[name](size)
  except KeyError:
    return bad("window:missing-alias", "alias missing", name, "KeyError")
  sums = [sum(w[j + k * hop] for k in range(div)) for j in range(hop)]
  ref = sums[0]
  for j, v in enumerate(sums):
    if abs(v - ref) > 256 * U:
      return bad("window:hop-sum", "hop-shifted copies of the periodic window must sum to a constant "
                 "(hop = size/%d)" % div, {"sum": ref}, {"j": j, "sum": v})
  if ref <= 0:
    return bad("window:hop-sum", "hop sum must be positive", ">0", ref)
  return R(None, size >= 4, (name, div))


# ----------------------------------------------------------- identities
def gen_identities(run):
  yield ("dicts",)
  for name in all_names():
    yield ("strategy", name)


def run_identities(case):
  if case[0] == "dicts":
    ok = (window.symm is wsymm and window.periodic is window and
          wsymm.symm is wsymm and wsymm.periodic is window)
    if not ok:
      return bad("window:crossref", "window.symm / .periodic / wsymm.symm / .periodic must point at each other", None, None)
    wk = sorted(sorted(k) for k in window.keys())
    sk = sorted(sorted(k) for k in wsymm.keys())
    if wk != sk:
      return bad("window:alias-table", "window and wsymm must offer the same strategy names and aliases", wk, sk)
    return R(None, True, "dicts")
  name = case[1]
  base = canonical(name)
  try:
    wf, sf = window[name], wsymm[name]
  except KeyError:
    return bad("window:missing-alias", "every strategy name and alias must exist in both window and wsymm",
               name, "KeyError")
  if wf is not window[base] or sf is not wsymm[base]:
    return bad("window:alias-object", "an alias must be the same object as the strategy", base, name)
  if not (wf.symm is sf and sf.periodic is wf and wf.periodic is wf and sf.symm is sf):
    return bad("window:crossref-strategy", "X.symm / X.periodic must cross-reference the two dictionaries", None, name)
  return R(None, True, name)


# ------------------------------------------------------------ calling routes
from ..routes import routes_agree


def route_table():
  T = OrderedDict()
  c = lambda v: (lambda: v)
  for sd, sdn in ((window, "window"), (wsymm, "wsymm")):
    for name in all_names():
      spec = [("size", c(9))]
      if canonical(name) in ("blackman", "cos"):
        spec.append(("alpha", c(0.3 if canonical(name) == "blackman" else 2.5)))
      T["%s.%s" % (sdn, name)] = (sd[name], spec, lambda w: [repr(v) for v in w])
  return T


def gen_routes(run):
  for name in route_table():
    yield (name,)


def run_routes(case):
  f, spec, canon = route_table()[case[0]]
  return routes_agree(case[0], f, spec, canon)


def gen_types(run):
  from ..routes import struct_params
  try:
    T = route_table()
  except Exception:
    T = {}
  for name, ent in T.items():
    if struct_params(ent[1]):
      yield (name,)


def run_types(case):
  from ..routes import struct_params, types_agree
  ent = route_table()[case[0]]
  return types_agree(case[0], ent[0], ent[1], ent[2], struct_params(ent[1]))


KINDS = OrderedDict([
  ("window", Kind(gen_window, run_window, chunk=16, rule="(name or alias, size) x alpha grid; non-trivial: size >= 3")),
  ("sums", Kind(gen_sums, run_sums, chunk=50, rule="(window, size, overlap factor)")),
  ("identities", Kind(gen_identities, run_identities, chunk=4, rule="alias table and cross references")),
  ("call-routes", Kind(gen_routes, run_routes, chunk=1,
                       rule="each function with every documented parameter set: all positional / all keyword / every split must agree")),
  ("param-types", Kind(gen_types, run_types, chunk=1,
                       rule="structural integer parameters given as integral float / Fraction / bool: same result wherever the type is accepted")),
])
