"""
C03 - A Stream behaves as a lazy sequence under any history of its methods.

E2: explicit-state search over histories of Stream / StreamTeeHub / tee
operations on a pool of handles.  Every transition is executed on fresh real
objects (the history is replayed), every return value / exception type is
compared with an immutable-sequence model, and after every transition all live
handles are drained and compared, which is what checks that copies, tee
outputs and thub uses are independent under every interleaving of consumption
(single-item reads on different handles are ordinary letters).
"""
from collections import OrderedDict, deque
import itertools, math
from ..runner import Kind, R, bad
from .. import histories

from audiolazy import Stream, thub, inf
from audiolazy import lazy_itertools as lit

PROPERTY = "C03"
LEVEL = "model_checking"
RULE = ("breadth-first search over all histories of take/peek/skip/limit/append/"
        "map/filter/copy/tee/list/next and thub use/peek/copy/wrappers on a pool "
        "of handles; unmerged (every history its own state) to the depth bound, "
        "then merged by (model state, per-handle wrapper signature) for deeper "
        "levels; every (state, operation) is one transition on the real objects")
ASSUMPTIONS = [
  "handles the documented contract forbids reusing (the argument of tee, a stream handed to thub) "
  "are dead and leave the alphabet",
  "exact rounding ties (n = x.5) are used for take / peek only, where the library's rint documents them "
  "(away from zero); skip / limit round with Python's round and are not given ties, and "
  "the property does not say which",
  "operations that cannot terminate by the model (list/take(inf) of an endless handle, a filter "
  "rejecting a whole cycle) are not applied to the real object",
  "merged levels: two histories are identified only if every handle has the same remaining "
  "sequence AND went through the same set of wrapper kinds",
]

POOLS = ["list123", "empty", "periodic12", "const4", "gen5", "chain", "periodic123", "hetero"]


def make_pool(name):
  if name == "list123": return Stream([1, 2, 3]), Seq((1, 2, 3), None)
  if name == "empty": return Stream([]), Seq((), None)
  if name == "periodic12": return Stream(1, 2), Seq((), (1, 2))
  if name == "const4": return Stream(4), Seq((), (4,))
  if name == "periodic123": return Stream(1, 2, 3), Seq((), (1, 2, 3))
  if name == "hetero":
    # opaque items incl. None and other falsy values (a Stream never inspects its items)
    items = (None, 0, "", 1.5, None, (), "x")
    return Stream(list(items)), Seq(items, None)
  if name == "gen5": return Stream(x for x in [1, 2, 3, 4, 5]), Seq((1, 2, 3, 4, 5), None)
  if name == "chain": return Stream([1, 2], (3,)), Seq((1, 2, 3), None)
  raise ValueError(name)


def bounds(run):
  return {"pools": POOLS, "unmerged_depth": run.pick(3, 4),
          "merged_depth": run.pick(4, 5), "max_live_handles": 4,
          "letters_per_stream_handle": len(stream_letters(Seq((1, 2, 3), None))),
          "letters_per_hub": len(HUB_LETTERS)}


# ------------------------------------------------------------------ model
class Seq(object):
  """Immutable lazy sequence: a finite prefix followed by an endless cycle."""
  __slots__ = ("items", "cycle")
  def __init__(self, items, cycle):
    self.items, self.cycle = tuple(items), (tuple(cycle) if cycle else None)
  @property
  def finite(self): return self.cycle is None
  def take(self, k):
    k = max(k, 0)
    it = self.items
    if k <= len(it):
      return list(it[:k]), Seq(it[k:], self.cycle)
    if self.cycle is None:
      return list(it), Seq((), None)
    need = k - len(it)
    c = self.cycle
    out = list(it) + [c[i % len(c)] for i in range(need)]
    r = need % len(c)
    return out, Seq((), c[r:] + c[:r])
  def map(self, f):
    return Seq(map(f, self.items), self.cycle and tuple(map(f, self.cycle)))
  def filter(self, p):
    return Seq(filter(p, self.items), self.cycle and tuple(filter(p, self.cycle)))
  def key(self):
    return (self.items, self.cycle)


def cnt_take(n):
  if isinstance(n, float):
    return int(math.floor(n + .5)) if n > 0 else 0
  return max(n, 0)


def cnt_round(n):
  return int(round(n))


ODD = lambda v: v % 2 == 1
ADD10 = lambda v: v + 10
CONS = {"list": list, "tuple": tuple, "set": set, "deque": deque}


def stream_letters(seq):
  L = []
  for n in (None, -1, 0, 1, 2, 2.4, 2.5, 2.6, 5, 0.5):
    L.append(("take", n))       # 2.5 and 0.5: exact ties go away from zero (take rounds with the library's rint)
  for n in (None, -1, 0, 1, 2, 2.5, 2.6, 5):
    L.append(("peek", n))
  if seq.finite:
    L += [("take", "inf"), ("peek", "inf"), ("list",)]
  for n in (-2, 0, 1, 2, 5, 1.6):
    L.append(("skip", n))
  if seq.finite:
    L.append(("skip", 2 ** 64))       # any count is legal: beyond the machine word the rest is simply dropped
  for n in (-1, 0, 1, 2, 5, 1.6):
    L.append(("limit", n))
  L += [("append1",), ("appendp",), ("map",), ("copy",), ("tee", 2), ("tee", 3),
        ("iternext",)]
  if seq.finite or any(ODD(v) for v in seq.cycle):
    L.append(("filter",))
  for c in ("tuple", "set", "deque"):
    L.append(("takec", c))
  for n in (0, 1, 2, 3):
    L.append(("thub", n))
  return L


HUB_LETTERS = [("use",), ("happendto",), ("hthub", 1), ("hthub", 2), ("hpeek", None), ("hpeek", 0), ("hpeek", 2), ("hpeek", 2.5), ("hpeek", 2.6),
               ("hpeek", 5), ("hpeek", "inf"), ("hcopy",),
               ("hmap",), ("hfilter",), ("hskip", 1), ("hlimit", 1),
               ("happend",), ("htake",)]


class World(object):
  """Real handles and model handles side by side."""
  def __init__(self, pool):
    self.pool = pool
    s, m = make_pool(pool)
    self.real = {0: s}
    self.model = {0: ["s", m, frozenset()]}    # kind, Seq | (Seq, left), signature
    self.nid = 1

  def live(self):
    return sorted(self.model)

  def new(self, real, kind, val, sig):
    i = self.nid
    self.nid += 1
    self.real[i] = real
    self.model[i] = [kind, val, frozenset(sig)]
    return i

  def kill(self, h):
    del self.real[h]
    del self.model[h]

  def letters(self):
    out = []
    for h in self.live():
      kind, val, sig = self.model[h]
      if kind == "s":
        for l in stream_letters(val):
          if l[0] in ("copy", "tee", "thub") and len(self.model) >= 4:
            continue
          if self.pool == "hetero" and (l[0] in ("map", "filter") or l == ("takec", "set")):
            continue
          out.append([h] + list(l))
      else:
        seq, left = val
        for l in HUB_LETTERS:
          if l[0] == "hfilter" and not (seq.finite or any(ODD(v) for v in seq.cycle)):
            continue
          if l == ("hpeek", "inf") and not seq.finite:
            continue
          if self.pool == "hetero" and l[0] in ("hmap", "hfilter"):
            continue
          if len(self.model) >= 5 and l[0] not in ("htake", "happendto") and not l[0].startswith("hpeek"):
            continue
          if l[0] == "hthub" and (len(self.model) >= 4 or left == 0):     # (an exhausted inner hub makes the failed
            # constructor's half-built object complain in __del__: stderr noise, nothing to learn)
            continue
          if l[0] == "happendto" and not any(k_ == "s" for k_, _, _ in self.model.values()):
            continue
          out.append([h] + list(l))
    return out

  # -- one step: returns (expected observation, real observation) -----------
  def step(self, op):
    h, name = op[0], op[1]
    arg = op[2] if len(op) > 2 else None
    kind, val, sig = self.model[h]
    r = self.real[h]
    if kind == "s":
      return self.step_stream(h, name, arg, val, sig, r)
    return self.step_hub(h, name, arg, val, sig, r)

  def _obs(self, fn):
    try:
      v = fn()
    except StopIteration:
      return "StopIteration"
    except Exception as exc:
      return type(exc).__name__
    return v

  def step_stream(self, h, name, arg, seq, sig, r):
    M = self.model
    if name in ("take", "peek", "iternext", "takec"):
      cons = list
      if name == "takec":
        cons, n = CONS[arg], 2
      elif name == "iternext":
        n = None
      else:
        n = inf if arg == "inf" else arg
      if n is None:
        got, rest = seq.take(1)
        exp = got[0] if got else "StopIteration"
      elif n == inf:
        got, rest = seq.take(len(seq.items))
        exp = cons(got)
      else:
        got, rest = seq.take(cnt_take(n))
        exp = cons(got)
      if name == "peek":
        # the list handed out belongs to the caller: it is scribbled over at once (what the stream yields later
        # - checked by the drain after every transition - must not depend on it)
        obs = self._obs(lambda: _spoil(r.peek(n)) if n is not None else r.peek())
        M[h][2] = sig | {"peek"}
      else:
        if name == "iternext":
          obs = self._obs(lambda: next(iter(r)))
        elif name == "takec":
          obs = self._obs(lambda: r.take(2, constructor=cons))
        else:
          obs = self._obs(lambda: _spoil(r.take(n)) if n is not None else r.take())
        M[h][1] = rest
        M[h][2] = sig | {"take"}
      if not isinstance(obs, str) and not isinstance(exp, str):
        if type(obs) is not type(exp):
          obs = "type:" + type(obs).__name__
      return exp, obs
    if name == "list":
      got, rest = seq.take(len(seq.items))
      M[h][1] = rest
      M[h][2] = sig | {"take"}
      return got, self._obs(lambda: list(r))
    if name in ("skip", "limit"):
      k = cnt_round(arg)
      if name == "skip":
        _, rest = seq.take(k)
      else:
        got, _ = seq.take(k)
        rest = Seq(got, None)
      M[h][1], M[h][2] = rest, sig | {name}
      return "self", self._obs(lambda: "self" if getattr(r, name)(arg) is r else "other")
    if name == "append1":
      if seq.finite:
        M[h][1] = Seq(seq.items + (9,), None)
      M[h][2] = sig | {"append"}
      return "self", self._obs(lambda: "self" if r.append([9]) is r else "other")
    if name == "appendp":
      if seq.finite:
        M[h][1] = Seq(seq.items, (7, 8))
      M[h][2] = sig | {"append"}
      return "self", self._obs(lambda: "self" if r.append(7, 8) is r else "other")
    if name == "map":
      M[h][1], M[h][2] = seq.map(ADD10), sig | {"map"}
      return "self", self._obs(lambda: "self" if r.map(ADD10) is r else "other")
    if name == "filter":
      M[h][1], M[h][2] = seq.filter(ODD), sig | {"filter"}
      return "self", self._obs(lambda: "self" if r.filter(ODD) is r else "other")
    if name == "copy":
      def do():
        c = r.copy()
        if not isinstance(c, Stream) or c is r:
          return "bad copy object"
        self.new(c, "s", seq, sig | {"copy"})
        return "new"
      M[h][2] = sig | {"copy"}
      obs = self._obs(do)
      if obs != "new":
        self.new(Stream([]), "s", seq, sig)
      return "new", obs
    if name == "tee":
      def do():
        outs = lit.tee(r, arg)
        if len(outs) != arg or not all(isinstance(o, Stream) for o in outs):
          return "bad tee result"
        for o in outs:
          self.new(o, "s", seq, sig | {"tee"})
        return "new%d" % arg
      obs = self._obs(do)
      if obs != "new%d" % arg:
        for _ in range(arg):
          self.new(Stream([]), "s", seq, sig)
      self.kill(h)
      return "new%d" % arg, obs
    if name == "thub":
      def do():
        t = thub(r, arg)
        if type(t).__name__ != "StreamTeeHub":
          return "not a hub"
        self.new(t, "h", (seq, arg), sig | {"thub"})
        return "hub"
      obs = self._obs(do)
      if obs != "hub":
        self.new(thub([], 0), "h", (seq, arg), sig)
      self.kill(h)
      return "hub", obs
    raise ValueError(name)

  def step_hub(self, h, name, arg, val, sig, t):
    seq, left = val
    M = self.model
    if name == "htake":
      return "AttributeError", self._obs(lambda: t.take())
    if name == "hpeek":
      if arg == "inf":
        arg = inf
      if left == 0:
        return "IndexError", self._obs(lambda: t.peek(arg) if arg is not None else t.peek())
      if arg is None:
        got, _ = seq.take(1)
        exp = got[0] if got else "StopIteration"
      elif arg == inf:
        exp = list(seq.items)
      else:
        exp, _ = seq.take(cnt_take(arg))
      return exp, self._obs(lambda: t.peek(arg) if arg is not None else t.peek())
    if name == "hcopy":
      if left == 0:
        return "IndexError", self._obs(lambda: t.copy())
      def do():
        c = t.copy()
        if not isinstance(c, Stream):
          return "bad copy object"
        self.new(c, "s", seq, sig | {"hcopy"})
        return "new"
      obs = self._obs(do)
      if obs != "new":
        self.new(Stream([]), "s", seq, sig)
      return "new", obs
    if name == "hthub":
      # a hub given as the data of another thub: ONE use of the inner hub is taken, the new hub hands
      # out exactly n uses of the same sequence, and the inner hub keeps its other uses
      if left == 0:
        return "IndexError", self._obs(lambda: thub(t, arg) and "hub")
      M[h][1] = (seq, left - 1)
      def do():
        t2 = thub(t, arg)
        if t2 is t or not hasattr(t2, "copy"):
          return "not a new hub"
        self.new(t2, "h", (seq, arg), sig | {"hthub"})
        return "hub"
      obs = self._obs(do)
      if obs != "hub":
        self.new(thub([], 0), "h", (seq, arg), sig)
      return "hub", obs
    if name == "happendto":
      # the hub given as the argument of another Stream's append(): that is one use of the hub, taken
      # at the call, and the stream goes on with the hub's whole sequence after its own items
      tgt = min(i for i in self.live() if M[i][0] == "s")
      tseq = M[tgt][1]
      if left == 0:
        return "IndexError", self._obs(lambda: ("self" if self.real[tgt].append(t) is self.real[tgt] else "other"))
      M[h][1] = (seq, left - 1)
      if tseq.finite:
        M[tgt][1] = Seq(tseq.items + seq.items, seq.cycle)
      M[tgt][2] = M[tgt][2] | {"append"}
      return "self", self._obs(lambda: ("self" if self.real[tgt].append(t) is self.real[tgt] else "other"))
    # the remaining letters consume one use
    fns = {"use": (lambda: Stream(t), lambda: seq),
           "hmap": (lambda: t.map(ADD10), lambda: seq.map(ADD10)),
           "hfilter": (lambda: t.filter(ODD), lambda: seq.filter(ODD)),
           "hskip": (lambda: t.skip(arg), lambda: seq.take(1)[1]),
           "hlimit": (lambda: t.limit(arg), lambda: Seq(seq.take(1)[0], None)),
           "happend": (lambda: t.append([9]),
                       lambda: Seq(seq.items + (9,), None) if seq.finite else seq)}
    fn, nseq = fns[name]
    nseq = nseq()
    if left == 0:
      return "IndexError", self._obs(fn)
    M[h][1] = (seq, left - 1)
    def do():
      s = fn()
      if not isinstance(s, Stream) or s is t:
        return "bad use object"
      self.new(s, "s", nseq, sig | {name})
      return "new"
    obs = self._obs(do)
    if obs != "new":
      self.new(Stream([]), "s", nseq, sig)
    return "new", obs

  # -- drain every live handle and compare ---------------------------------
  def drain(self):
    for h in self.live():
      kind, val, sig = self.model[h]
      r = self.real[h]
      if kind == "s":
        if val.finite:
          # bounded drain: a handle that wrongly became endless must fail fast
          exp = list(val.items)
          obs = self._obs(lambda: r.take(len(exp) + 3))
          if obs == exp:
            obs = self._obs(lambda: list(r)) or exp
        else:
          exp, _ = val.take(6)
          obs = self._obs(lambda: r.take(6))
        if obs != exp:
          return h, exp, obs
      else:
        seq, left = val
        for u in range(left):
          if seq.finite:
            exp = list(seq.items)
            obs = self._obs(lambda: Stream(r).take(len(exp) + 3))
          else:
            exp, _ = seq.take(6)
            obs = self._obs(lambda: Stream(r).take(6))
          if obs != exp:
            return h, exp, obs
        obs = self._obs(lambda: Stream(r))
        if obs != "IndexError":
          return h, "IndexError", "another use was handed out"
    return None

  def canon(self):
    out = []
    for h in self.live():
      kind, val, sig = self.model[h]
      if kind == "s":
        out.append(("s", val.key(), tuple(sorted(sig))))
      else:
        out.append(("h", val[0].key(), val[1], tuple(sorted(sig))))
    return tuple(sorted(out, key=repr))


def jsonable(v):
  if isinstance(v, (set, frozenset)):
    return {"set": sorted(v)}
  if isinstance(v, (tuple, deque)):
    return {type(v).__name__: [jsonable(x) for x in v]}
  if isinstance(v, list):
    return [jsonable(x) for x in v]
  return v


def replay_history(pool, hist, check_all=True):
  """Returns (world, None) or (world, violation-tuple)."""
  w = World(pool)
  for i, op in enumerate(hist):
    exp, obs = w.step(op)
    if check_all and obs != exp:
      return w, (i, op, exp, obs)
  return w, None


def run_hist(case):
  """Expand one state: apply every enabled letter, check the step and drain."""
  (pool, max_depth, merged), hist = case
  cfg = [pool, max_depth, merged]
  hist = [list(o) for o in hist]
  w0, v = replay_history(pool, hist)
  if v is not None:
    i, op, exp, obs = v
    return bad("stream:%s" % op[1], "operation result differs from the immutable list model",
               {"step": i, "op": op, "result": jsonable(exp)},
               {"result": jsonable(obs), "pool": pool, "history": hist})
  c0 = w0.canon()
  leaf = len(hist) + 1 >= max_depth
  succ = {("self:", pool) + c0: [cfg, hist]}
  n = 0
  first_bad = None
  outcomes = set()
  interleaved = 0
  for op in w0.letters():
    w, _ = replay_history(pool, hist, check_all=False)
    exp, obs = w.step(op)
    n += 1
    outcomes.add((op[1], obs if isinstance(obs, str) else "value"))
    if obs != exp:
      if first_bad is None:
        first_bad = bad("stream:%s" % op[1],
                        "operation result differs from the immutable list model",
                        {"op": op, "result": jsonable(exp)},
                        {"result": jsonable(obs), "pool": pool, "history": hist})
      continue
    cw = w.canon()
    d = w.drain()
    if d is not None:
      if first_bad is None:
        first_bad = bad("stream:drain-after:%s" % op[1],
                        "after the history a live handle does not hold the model's remaining sequence "
                        "(copies / tee outputs / thub uses must be independent)",
                        {"op": op, "handle": d[0], "remaining": jsonable(d[1])},
                        {"remaining": jsonable(d[2]), "pool": pool, "history": hist})
      continue
    if not leaf:
      succ.setdefault(("m" if merged else "u", pool) + (cw if merged else (tuple(map(tuple, hist + [op])),)),
                      [cfg, hist + [op]])
  hs = set(o[0] for o in hist)
  extra = {"transitions": n}
  nontriv = len(hs) >= 2
  if first_bad is not None:
    first_bad.n, first_bad.extra, first_bad.succ = n, extra, succ
    return first_bad
  return R(None, nontriv, tuple(sorted(outcomes)), n, extra, succ)


def _spoil(res):
  """Returns a snapshot of a list result and overwrites the original in place."""
  if isinstance(res, list):
    snap = list(res)
    res[:] = ["spoiled"] * (len(res) + 1)
    return snap
  return res


# ------------------------------------------------ thub of a non-iterable
class _IterableInstances(object):
  """A class whose INSTANCES are iterable; the class object itself is not."""
  def __iter__(self):
    return iter([1, 2])


NONITER = OrderedDict([
  ("int", lambda: 5), ("float", lambda: 2.5), ("none", lambda: None), ("object", object), ("complex", lambda: 1j),
  ("callable", lambda: len), ("bool", lambda: True), ("lambda", lambda: (lambda v: v)),
  # class objects: iter(list) raises TypeError - a class is not iterable because its instances are
  ("class-list", lambda: list), ("class-dict", lambda: dict), ("class-str", lambda: str), ("class-tuple", lambda: tuple),
  ("class-Stream", lambda: Stream), ("class-user", lambda: _IterableInstances), ("module", lambda: math),
  ("ellipsis", lambda: Ellipsis), ("notimplemented", lambda: NotImplemented),
])


def gen_noniter(run):
  for x in NONITER:
    for n in (0, 1, 2, 3, 7):
      yield (x, n)


def run_noniter(case):
  x, n = case
  v = NONITER[x]()
  try:
    iter(v)
    return bad("harness:noniter", "menu entry is iterable", x, "iterable")
  except TypeError:
    pass
  r = thub(v, n)
  if r is not v:
    return bad("thub:noniterable", "thub of a non-iterable must be that object", x, type(r).__name__)
  return R(None, True, x)


# ------------------------------------------------ predicates that answer with truthiness, not with a bool
PREDS = OrderedDict([
  ("mod3", lambda v: v % 3),            # 0 / 1 / 2
  ("and6", lambda v: v & 6),            # 0 / 2 / 4 / 6
  ("half", lambda v: v // 2),           # 0 for 0 and 1, a count otherwise
  ("list", lambda v: [v] * (v % 2)),    # [] / [v]
  ("str", lambda v: "x" * (v % 3)),     # "" / "x" / "xx"
  ("none", lambda v: None if v % 2 else v),
  ("float", lambda v: 0.0 if v % 4 == 0 else 0.5),
  ("bool", lambda v: v % 2 == 1),
])


def gen_preds(run):
  for p in PREDS:
    for n in range(0, 10):
      for route in ("stream", "copy", "hub-use", "map-filter", "filter-twice", "periodic-limit"):
        yield (p, n, route)


def run_preds(case):
  """filter keeps exactly the items whose predicate value is *truthy* (the builtin's meaning); inputs are finite
  (or cut by limit before the filter), so a wrong filter cannot make the case endless."""
  pn, n, route = case
  p = PREDS[pn]
  L = list(range(n))
  if route == "stream":
    got, exp = list(Stream(L).filter(p)), list(filter(p, L))
  elif route == "copy":
    s = Stream(L); c = s.copy()
    got, exp = [list(c.filter(p)), list(s)], [list(filter(p, L)), L]
  elif route == "hub-use":
    h = thub(Stream(L), 2)
    got, exp = [list(Stream(h).filter(p)), list(Stream(h))], [list(filter(p, L)), L]
  elif route == "map-filter":
    got, exp = list(Stream(L).map(lambda v: v + 1).filter(p)), list(filter(p, [v + 1 for v in L]))
  elif route == "filter-twice":
    q = PREDS["mod3"]
    got, exp = list(Stream(L).filter(p).filter(q)), list(filter(q, filter(p, L)))
  else:
    if not L:
      return R(None, False, route)
    got, exp = list(Stream(*L).limit(2 * n + 1).filter(p)), list(filter(p, (L * 3)[:2 * n + 1]))
  if got != exp:
    return bad("filter:truthiness", "filter(%s) keeps the items whose predicate value is truthy (route %s)" % (pn, route),
               repr(exp), repr(got), True)
  return R(None, True, (pn, route))


# ------------------------------------------------ tee of every kind of input
class _Countdown(object):
  """A hand-written iterator (has __next__, is its own iter)."""
  def __init__(self, seq):
    self.seq = list(seq)
  def __iter__(self):
    return self
  def __next__(self):
    if not self.seq:
      raise StopIteration
    return self.seq.pop(0)
  next = __next__


TEE_INPUTS = OrderedDict([
  ("stream", lambda q: Stream(list(q))), ("stream-copy", lambda q: Stream(list(q)).copy()),
  ("generator", lambda q: (v for v in list(q))), ("list-iterator", lambda q: iter(list(q))),
  ("tuple-iterator", lambda q: iter(tuple(q))), ("islice", lambda q: itertools.islice(list(q) + [99], len(q))),
  ("chain", lambda q: itertools.chain(list(q)[:1], list(q)[1:])), ("iter-of-stream", lambda q: iter(Stream(list(q)))),
  ("raw-tee-output", lambda q: itertools.tee(iter(list(q)), 1)[0]), ("map", lambda q: map(lambda v: v, list(q))),
  ("zip-first", lambda q: (a for a, in zip(list(q)))), ("reversed", lambda q: reversed(list(q)[::-1])),
  ("dict-keyiterator", lambda q: iter(dict.fromkeys(q))), ("user-iterator", lambda q: _Countdown(q)),
  ("hub-use", lambda q: iter(thub(list(q), 1))), ("lit-count-limited", lambda q: itertools.takewhile(lambda v: True, list(q))),
  # not iterators: by the documented contract the same object comes back n times
  ("list", lambda q: list(q)), ("tuple", lambda q: tuple(q)), ("number", lambda q: 7),
])


def _schedules(n, pulls):
  """All orders in which n outputs can be asked `pulls` items each."""
  def rec(left, acc):
    if not any(left):
      yield tuple(acc)
      return
    for i in range(n):
      if left[i]:
        left[i] -= 1
        acc.append(i)
        for r in rec(left, acc):
          yield r
        acc.pop()
        left[i] += 1
  return rec([pulls] * n, [])


def gen_tee_inputs(run):
  for kind in TEE_INPUTS:
    for n in (0, 1, 2, 3):
      for route in ("positional", "keyword"):
        yield (kind, n, route)


def run_tee_inputs(case):
  kind, n, route = case
  seq = [3, 5, 8] if n < 3 else [3, 5]
  def mk():
    src = TEE_INPUTS[kind](seq)
    return src, (lit.tee(src, n) if route == "positional" else lit.tee(data=src, n=n))
  src, outs = mk()
  if not isinstance(outs, tuple) or len(outs) != n:
    return bad("tee:count", "tee(data, n) gives n outputs", n, repr(outs)[:200])
  from collections.abc import Iterator
  is_iterator = isinstance(src, (Stream, Iterator))
  if not is_iterator:
    for o in outs:
      if o is not src:
        return bad("tee:non-iterator", "tee of something that is not an iterator hands that object back n times", type(src).__name__, type(o).__name__)
    return R(None, False, ("same-object", kind))
  for o in outs:
    if not isinstance(o, Stream):
      return bad("tee:kind", "every tee output of an iterator is a Stream", "Stream", type(o).__name__)
  if n == 0:
    return R(None, False, ("no-output", kind))
  pulls = len(seq) + 1               # one more than there is: the end must be seen by every output too
  count = 0
  for sched in _schedules(n, pulls):
    src, outs = mk()
    its = [iter(o) for o in outs]
    got = [[] for _ in outs]
    for i in sched:
      try:
        got[i].append(next(its[i]))
      except StopIteration:
        got[i].append("END")
    count += 1
    for i in range(n):
      if got[i] != seq + ["END"]:
        return bad("tee:independent", "every tee output yields the whole sequence whatever the order of consumption "
                   "(input: %s)" % kind, {"schedule": list(sched), "each": seq + ["END"]}, got)
  return R(None, n >= 2, (kind, n), count)



# ------------------------------------------------ a hub that is dropped / teed while uses are alive
DROP_INPUTS = OrderedDict([
  ("list", lambda q: list(q)), ("generator", lambda q: (v for v in list(q))), ("stream-of-generator", lambda q: Stream(v for v in list(q))),
  ("skipped-stream", lambda q: Stream([0] + list(q)).skip(1)), ("mapped-stream", lambda q: Stream(list(q)).map(lambda v: v)),
  ("iterator", lambda q: iter(list(q))),
])


def gen_hub_life(run):
  for kind in DROP_INPUTS:
    for uses in (2, 3):
      for taken in range(1, uses + 1):
        for read_before in (0, 1, 2):
          yield ("drop", kind, uses, taken, read_before)
  for kind in DROP_INPUTS:
    for uses in (1, 2, 3):
      for n in (1, 2, 3):                # (no output, n = 0, looks at nothing)
        yield ("tee", kind, uses, n, 0)


def run_hub_life(case):
  import gc, warnings
  what, kind, uses, arg, read_before = case
  seq = [7, 3, 9, 4]
  hub = thub(DROP_INPUTS[kind](seq), uses)
  if what == "drop":
    # `arg` uses are taken, `read_before` items read from each; then the hub object itself goes away (helper
    # scope ended, name rebound) with uses never taken: the uses handed out still see the whole sequence
    outs = [Stream(hub) for _ in range(arg)]
    got = [[next(iter(o)) for _ in range(read_before)] for o in outs]
    with warnings.catch_warnings():
      warnings.simplefilter("ignore")
      del hub
      gc.collect()
    for g, o in zip(got, outs):
      g.extend(list(o))
    if any(g != seq for g in got):
      return bad("hub:dropped", "uses handed out by a hub must see the whole sequence also after the hub object "
                 "itself was dropped (input: %s)" % kind, [seq] * arg, got, True)
    return R(None, arg < uses, ("drop", kind))
  # tee of a hub is one use of it (tee iterates its argument): uses - 1 are left, then IndexError
  try:
    outs = lit.tee(hub, arg)
  except Exception as exc:
    return bad("hub:tee:exception", "tee(hub, n) raised", None, repr(exc)[:200], True)
  left = 0
  rest = []
  for _ in range(uses + 2):
    try:
      rest.append(list(Stream(hub)))
      left += 1
    except IndexError:
      break
  got = [list(o) for o in outs]
  if left != uses - 1:
    return bad("hub:tee:uses", "tee(hub, n) takes exactly one use of the hub (a thub hands out exactly n uses)",
               {"uses left": uses - 1}, {"uses left": left}, True)
  if any(g != seq for g in got + rest):
    return bad("hub:tee:value", "tee outputs and the remaining uses each see the whole sequence", seq, got + rest, True)
  return R(None, True, ("tee", kind))

# ------------------------------------------------------------ calling routes
from ..routes import routes_agree


def route_table():
  T = OrderedDict()
  c = lambda v: (lambda: v)
  T["Stream.take"] = (lambda *a, **k: Stream([1, 2, 3, 4]).take(*a, **k), [("n", c(3)), ("constructor", c(tuple))], repr)
  T["Stream.peek"] = (lambda *a, **k: Stream([1, 2, 3, 4]).peek(*a, **k), [("n", c(3)), ("constructor", c(tuple))], repr)
  T["Stream.skip"] = (lambda *a, **k: list(Stream([1, 2, 3, 4]).skip(*a, **k)), [("n", c(3))], repr)
  T["Stream.limit"] = (lambda *a, **k: list(Stream([1, 2, 3, 4]).limit(*a, **k)), [("n", c(3))], repr)
  T["thub"] = (lambda *a, **k: [list(Stream(h)) for h in [thub(*a, **k)] * 2], [("data", lambda: [1, 2, 3]), ("n", c(2))], repr)
  from audiolazy import tee
  T["tee"] = (lambda *a, **k: [list(t) for t in tee(*a, **k)], [("data", lambda: [1, 2, 3]), ("n", c(3))], repr)
  return T


def gen_routes(run):
  for name in route_table():
    yield (name,)


def run_routes(case):
  f, spec, canon = route_table()[case[0]]
  return routes_agree(case[0], f, spec, canon)


# ---------------------------------------------------------------- long streams
import itertools as _it
LONG_OPS = [("take", 700), ("skip", 1000), ("peek", 1200), ("limit", 2500), ("copy", None), ("take", 64),
            ("skip", 65), ("append", 300), ("map", None), ("thub", 2)]


def gen_long(run):
  for src in ("finite", "periodic", "generator"):
    for seq in _it.permutations(range(len(LONG_OPS)), 3):
      yield (src, list(seq))


def run_long(case):
  """Counts in the hundreds and thousands on a stream of 5000 items (or a period-7 endless one):
  the same list model, every live handle drained (finite) or read 3000 items further (endless)."""
  src, seq = case
  N = 5000
  if src == "finite":
    model, real = list(range(N)), Stream(list(range(N)))
  elif src == "generator":
    model, real = [3 * i for i in range(N)], Stream(3 * i for i in range(N))
  else:
    model, real = [i % 7 for i in range(20000)], Stream(0, 1, 2, 3, 4, 5, 6)
  handles = [(model, real, src == "periodic")]
  for oi in seq:
    name, arg = LONG_OPS[oi]
    m, r, endless = handles[0]
    try:
      if name == "take":
        exp, got = m[:arg], r.take(arg)
        m = m[arg:]
        if got != exp:
          return bad("stream-long:take", "take(%d) on a long stream" % arg, exp[:5] + ["..."] + exp[-3:], got[:5] + ["..."] + got[-3:], True)
      elif name == "peek":
        exp, got = m[:arg], r.peek(arg)
        if got != exp:
          return bad("stream-long:peek", "peek(%d) on a long stream" % arg, len(exp), len(got), True)
      elif name == "skip":
        r.skip(arg); m = m[arg:]
      elif name == "limit":
        r.limit(arg); m = m[:arg]; endless = False
      elif name == "append":
        r.append(list(range(-arg, 0)))
        if not endless:
          m = m + list(range(-arg, 0))
      elif name == "map":
        r.map(lambda v: v + 1); m = [v + 1 for v in m]
      elif name == "copy":
        c = r.copy()
        handles.append((list(m), c, endless))
      elif name == "thub":
        h = thub(r, arg)
        uses = [Stream(h) for _ in range(arg)]
        handles = [(list(m), u, endless) for u in uses] + handles[1:]
        continue
    except Exception as exc:
      return bad("stream-long:exception:" + type(exc).__name__, "operation %s raised" % name, None, str(exc)[:200], True)
    handles[0] = (m, r, endless)
  for hi, (m, r, endless) in enumerate(handles):
    want = m[:3000]
    try:
      got = r.take(3000) if endless else list(r)[:3000]
    except Exception as exc:
      return bad("stream-long:exception:" + type(exc).__name__, "draining raised", None, str(exc)[:200], True)
    if got != want:
      k = next((i for i, (g, e) in enumerate(zip(got, want)) if g != e), min(len(got), len(want)))
      return bad("stream-long:drain", "a handle yields something else than the list model after long operations",
                 {"handle": hi, "at": k, "length": len(want), "value": want[k] if k < len(want) else None},
                 {"length": len(got), "value": got[k] if k < len(got) else None}, True)
  return R(None, True, (src, len(handles)))


# ------------------------------------------------ copies of Stream subclass instances
class Tagged(Stream):
  """A user subclass whose constructor does not take the data alone."""
  def __init__(self, tag, data):
    super(Tagged, self).__init__(data)
    self.tag = tag


def gen_subclasses(run):
  for cls in ("control", "mixer", "tagged", "hub", "plain"):
    for op in ("copy", "tee2", "tee3", "peek-then-tee"):
      yield (cls, op)


def run_subclasses(case):
  """copy() / tee() of an instance of a Stream subclass (ControlStream, Streamix, a user subclass, a
  hub use): every copy yields the sequence the original would have yielded, and so does the original."""
  from audiolazy import ControlStream, Streamix
  cls, op = case
  def make():
    if cls == "control":
      return ControlStream(7), [7] * 6, True
    if cls == "mixer":
      sm = Streamix()
      sm.add(0, [1, 2, 3])
      sm.add(2, [10, 20])
      return sm, [1, 2, 13, 20], False
    if cls == "tagged":
      return Tagged("t", [4, 5, 6]), [4, 5, 6], False
    if cls == "hub":
      return thub([4, 5, 6], 1), [4, 5, 6], False
    return Stream([4, 5, 6]), [4, 5, 6], False
  try:
    obj, want, endless = make()
    read = (lambda s_: s_.take(6)) if endless else (lambda s_: list(s_))
    if op == "copy":
      copies = [obj.copy()]
    elif op == "peek-then-tee":
      head = obj.peek(2)
      if head != want[:2]:
        return bad("subclass:peek", "peek on a %s instance" % cls, want[:2], head, True)
      copies = list(lit.tee(obj, 2))
    else:
      copies = list(lit.tee(obj, int(op[3:])))
    outs = [read(c) for c in copies]
    if cls != "hub" and op == "copy":
      outs.append(read(obj))                  # the original is still usable after copy()
  except Exception as exc:
    return bad("subclass:exception:" + type(exc).__name__, "%s of a %s instance raised" % (op, cls), want, str(exc)[:200], True)
  for i, o in enumerate(outs):
    if o != want:
      return bad("subclass:value", "%s of a %s instance: copy %d does not yield the original's sequence" % (op, cls, i),
                 want, o[:8], True)
  return R(None, True, (cls, op))


def gen_types(run):
  from ..routes import struct_params
  try:
    T = route_table()
  except Exception:
    T = {}
  for name, ent in T.items():
    if struct_params(ent[1]):
      yield (name,)


def run_types(case):
  from ..routes import struct_params, types_agree
  ent = route_table()[case[0]]
  return types_agree(case[0], ent[0], ent[1], ent[2], struct_params(ent[1]))


KINDS = OrderedDict([
  ("hist", Kind(None, run_hist, chunk=16, timeout=30,
                rule="one case = one state (history); every enabled letter applied from it, then all handles drained")),
  ("noniter", Kind(gen_noniter, run_noniter, rule="thub(x, n) is x for non-iterables")),
  ("predicates", Kind(gen_preds, run_preds, chunk=40,
                      rule="filter with 8 predicates answering 0/ints/lists/strings/None/floats/bools x finite inputs of 0..9 items x 6 routes (stream, copy, hub use, after map, twice, periodic cut by limit)")),
  ("tee-inputs", Kind(gen_tee_inputs, run_tee_inputs, chunk=8,
                      rule="tee of every kind of iterator (19 input kinds) x n 0..3 x every order of single-item consumption")),
  ("hub-life", Kind(gen_hub_life, run_hub_life, chunk=8,
                    rule="a hub dropped (garbage-collected) with uses never taken while uses handed out are still read; tee of a hub counted as one use")),
  ("call-routes", Kind(gen_routes, run_routes, chunk=1,
                       rule="each function with every documented parameter set: all positional / all keyword / every split must agree")),
  ("long", Kind(gen_long, run_long, chunk=20, rule="3-operation permutations with counts 64..2500 on streams of 5000 items / endless, list model")),
  ("subclasses", Kind(gen_subclasses, run_subclasses, chunk=2, timeout=20, rule="copy / tee of ControlStream, Streamix, a user subclass, a hub")),
  ("param-types", Kind(gen_types, run_types, chunk=1,
                       rule="structural integer parameters given as integral float / Fraction / bool: same result wherever the type is accepted")),
])


def main(run):
  if run.viols:
    # the verdict is already VIOLATION; a broken filter / map can make histories endless (30 s time-out each)
    run.caps.append("history search skipped: a generated kind already reported a violation")
    return
  du, dm = run.pick(3, 4), run.pick(4, 5)
  states = trans = 0
  levels = {}
  t_before = 0
  for phase, depth, merged in (("unmerged", du, False), ("merged", dm, True)):
    inits = [[[p, depth, merged], []] for p in run.rot(POOLS)]
    st = histories.bfs(run, "hist", inits, max_depth=depth, merge=True)
    k = run.per_kind["hist"]
    t_now = k["extra"]["transitions"]
    print("  %s: depth %d, %d states expanded-or-reached, %d transitions, %.1fs"
          % (phase, depth, st["states"], t_now - t_before, st["wall_s"]))
    levels[phase] = {"depth_bound": depth, "states": st["states"],
                     "transitions": t_now - t_before, "levels": st["levels"]}
    states += st["states"]
    t_before = t_now
    deepest = max(st["seen"].values(), key=lambda c: len(c[1]), default=[[None], []])
    run.samples.insert(0, {"phase": phase, "pool": deepest[0][0], "history": deepest[1]})
  run.coverage.update({
    "states": states, "transitions": t_before,
    "traces_validated_against_impl": t_before,
    "max_depth": max(du, dm), "phases": levels,
    "explanation": "each transition = the history replayed on fresh real Stream objects plus one more "
                   "operation, its result compared with the list model, then every live handle drained "
                   "and compared; the last level's successors are executed but not expanded further",
  })
