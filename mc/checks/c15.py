"""
C15 - MultiKeyDict / StrategyDict stay coherent under any update history.

E2, closure search: breadth-first over *all* operation histories of the real
objects until no new canonical state appears, so every reachable state of the
small universe is visited and every operation of the alphabet is applied from
every state.  Each transition is executed on a fresh real object rebuilt by
replaying the (shortest) history of its source state, and every observer is
compared with a boring reference model after the step.
"""
from collections import OrderedDict
import itertools
from ..runner import Kind, R, bad
from .. import histories

from audiolazy import MultiKeyDict, StrategyDict

PROPERTY = "C15"
LEVEL = "model_checking"
RULE = ("breadth-first closure over all histories of item assignments (single "
        "key, key tuples incl. repeated keys), deletions and constructor calls; "
        "state = canonical reference-model state; every (state, operation) "
        "pair is one transition executed on the real object")
ASSUMPTIONS = [
  "keys/values are small hashable atoms; behaviour does not depend on which atoms (only on equality)",
  "StrategyDict names are strings; two of them (pop, items) are also names of dict methods - the unchanged "
  "class treats them like any other name (item and instance attribute), which the statement requires",
  "state merging: two histories with the same canonical model state have the same futures, "
  "because every field of the real object (three internal maps, instance attributes) is "
  "compared with the model after every transition",
]

KEYS = ["lo", "ol", "l", "k10", "k1", "o"]       # strings are iterable: a key is ONE key, never its characters
VALS = [1, 2, 3, 1.0]           # 1.0 == 1: equal value, different object


def bounds(run):
  return {"mkd": cfg_mkd(run), "sd": cfg_sd(run)}


def cfg_mkd(run):
  # (number of keys, number of values, max tuple length)
  return run.pick([5, 4, 2], [6, 4, 3])


def cfg_sd(run):
  return run.pick([4, 3, 2], [4, 4, 3])


def cfg_sd3(run):
  return [3, 2, 3]


# ---------------------------------------------------------------- model
class Model(object):
  """key -> value map with, per value, its keys in order of most recent
  assignment (oldest first)."""
  def __init__(self):
    self.groups = []           # [value, [keys]] in creation order

  def copy(self):
    m = type(self)()
    m.groups = [[v, list(ks)] for v, ks in self.groups]
    return m

  def group_of(self, key):
    for g in self.groups:
      if key in g[1]:
        return g
    return None

  def group_val(self, value):
    for g in self.groups:
      if g[0] == value:
        return g
    return None

  def remove(self, key):
    g = self.group_of(key)
    if g is None:
      raise KeyError(key)
    g[1].remove(key)
    if not g[1]:
      self.groups.remove(g)
    return g

  def set(self, keys, value):
    ks = []
    for k in reversed(keys):
      if k not in ks:
        ks.append(k)
    ks.reverse()
    for k in ks:
      if self.group_of(k) is not None:
        self.remove(k)
    g = self.group_val(value)
    if g is None:
      self.groups.append([value, ks])
    else:
      g[0] = value
      g[1].extend(ks)

  def canon(self):
    return tuple(sorted((float(v), tuple(ks)) for v, ks in self.groups))


def apply_model(m, op):
  """Returns the exception type name expected (or None)."""
  if op[0] == "set":
    m.set(list(op[1]), VALS[op[2]])
    return None
  if op[0] == "del":
    if m.group_of(op[1]) is None:
      return "KeyError"
    m.remove(op[1])
    return None
  if op[0] == "set-unhashable":
    return "TypeError"                   # a value must be hashable: the assignment is refused and changes nothing
  raise ValueError(op)


def apply_real(d, op):
  try:
    if op[0] == "set-unhashable":
      ks = op[1]
      d[ks[0] if len(ks) == 1 else tuple(ks)] = [1, 2]
      return None
    if op[0] == "set":
      ks = op[1]
      d[ks[0] if len(ks) == 1 and op[3] else tuple(ks)] = VALS[op[2]]
    elif op[0] == "del":
      del d[op[1]]
    return None
  except Exception as exc:
    return type(exc).__name__


def build_mkd(hist):
  if hist and hist[0][0] == "init":
    d = MultiKeyDict(OrderedDict((k, VALS[v]) for k, v in hist[0][1]))
    m = Model()
    for k, v in OrderedDict((k, v) for k, v in hist[0][1]).items():
      m.set([k], VALS[v])
    rest = hist[1:]
  else:
    d, m, rest = MultiKeyDict(), Model(), hist
  for op in rest:
    apply_real(d, op)
    apply_model(m, op)
  return d, m


def observe_mkd(d, m, nkeys, nvals):
  """Compare every observer; returns None or (what, expected, observed)."""
  for k in KEYS[:nkeys]:
    g = m.group_of(k)
    try:
      got = d[k]
    except KeyError:
      got = KeyError
    exp = g[0] if g else KeyError
    if not (got == exp):
      return ("d[%r]" % k, exp, got)
    try:
      got = d.key2keys(k)
    except KeyError:
      got = KeyError
    exp = tuple(g[1]) if g else KeyError
    if got != exp:
      return ("key2keys(%r)" % k, exp, got)
  for v in VALS[:nvals]:
    g = m.group_val(v)
    exp = tuple(g[1]) if g else ()
    got = d.value2keys(v)
    if got != exp:
      return ("value2keys(%r)" % v, exp, got)
  if len(d) != len(m.groups):
    return ("len", len(m.groups), len(d))
  got = sorted(d)
  exp = sorted(g[0] for g in m.groups)
  if got != exp:
    return ("list(d)", exp, got)
  got = sorted(d.keys())
  exp = sorted(tuple(g[1]) for g in m.groups)
  if got != exp:
    return ("sorted(d.keys())", exp, got)
  for g in m.groups:
    try:
      got = d[tuple(g[1])]
    except KeyError:
      got = KeyError
    if not (got == g[0]):
      return ("d[%r]" % (tuple(g[1]),), g[0], got)
  # internal coherence: the three maps describe the same partition
  kd = dict(d._keys_dict)
  exp_kd = {k: tuple(g[1]) for g in m.groups for k in g[1]}
  if kd != exp_kd:
    return ("_keys_dict", exp_kd, kd)
  inv = dict(d._inv_dict)
  exp_inv = {g[0]: tuple(g[1]) for g in m.groups}
  if inv != exp_inv:
    return ("_inv_dict", exp_inv, inv)
  items = dict(dict.items(d))
  exp_items = {tuple(g[1]): g[0] for g in m.groups}
  if items != exp_items:
    return ("dict.items", exp_items, items)
  return None


def mkd_ops(nkeys, nvals, maxtuple):
  ops = []
  ks = KEYS[:nkeys]
  for k in ks:
    ops.append(["del", k])
  ops.append(["del", "zz"])             # never present
  ops.append(["set-unhashable", [ks[0]]])
  ops.append(["set-unhashable", [ks[-1], ks[0]]])
  for vi in range(nvals):
    for k in ks:
      ops.append(["set", [k], vi, True])      # d[k] = v
      ops.append(["set", [k], vi, False])     # d[(k,)] = v
    for n in range(2, maxtuple + 1):
      for t in itertools.product(ks, repeat=n):
        ops.append(["set", list(t), vi, False])
  return ops


def run_mkd(case):
  (nkeys, nvals, maxtuple), hist = case
  cfg = [nkeys, nvals, maxtuple]
  hist = [list(o) for o in hist]
  try:
    _, m0 = build_mkd(hist)
  except Exception as exc:
    return bad("mkd:constructor", "building the dictionary raised", None, repr(exc))
  succ = {("self:",) + m0.canon(): [cfg, hist]}
  n = 0
  changed = 0
  outcomes = set()
  first_bad = None
  # the state itself (covers the constructor-built initial states)
  d, m = build_mkd(hist)
  o = observe_mkd(d, m, nkeys, nvals)
  if o is not None:
    return bad("mkd:state:" + o[0].split("(")[0].split("[")[0],
               "observer disagrees with the key->value model in the state reached by the history",
               {"observer": o[0], "value": o[1]}, {"value": o[2], "history": hist})
  # casting: a MultiKeyDict built from this one (its items have key tuples as keys) is an equal, independent map
  for label, mk in (("MultiKeyDict(d)", lambda: MultiKeyDict(d)), ("MultiKeyDict(dict(d.items()))", lambda: MultiKeyDict(dict(d.items()))),
                    ("MultiKeyDict(list(d.items()))", lambda: MultiKeyDict(list(d.items())))):
    try:
      d2 = mk()
      o = observe_mkd(d2, m, nkeys, nvals)
      if o is None and len(m.groups):
        d2[KEYS[0]] = "other"
        del d2[KEYS[0]]
        o = observe_mkd(d, m, nkeys, nvals)
        if o is not None:
          o = ("original after changing the copy: " + o[0], o[1], o[2])
    except Exception as exc:
      o = ("exception", None, repr(exc)[:200])
    if o is not None:
      return bad("mkd:cast:" + o[0].split("(")[0].split("[")[0], "%s must be a map equal to d (and independent of it)" % label,
                 {"observer": o[0], "value": o[1]}, {"value": o[2], "history": hist})
  for op in mkd_ops(nkeys, nvals, maxtuple):
    d, m = build_mkd(hist)
    before = m.canon()
    exp_exc = apply_model(m, op)
    got_exc = apply_real(d, op)
    n += 1
    outcomes.add((op[0], got_exc))
    if got_exc != exp_exc and first_bad is None:
      first_bad = bad("mkd:%s:exception" % op[0],
                      "operation raised / did not raise as the model says",
                      {"op": op, "exception": exp_exc},
                      {"exception": got_exc, "history": hist})
      continue
    o = observe_mkd(d, m, nkeys, nvals)
    if o is not None and first_bad is None:
      first_bad = bad("mkd:%s:%s" % (op[0], o[0].split("(")[0].split("[")[0]),
                      "observer disagrees with the key->value model after the operation",
                      {"op": op, "observer": o[0], "value": o[1]},
                      {"value": o[2], "history": hist})
      continue
    c = m.canon()
    if c != before:
      changed += 1
    succ.setdefault(c, [cfg, hist + [op]])
  extra = {"transitions": n, "transitions_changing_state": changed}
  if first_bad is not None:
    first_bad.n, first_bad.extra, first_bad.succ = n, extra, succ
    return first_bad
  return R(None, changed > 0, tuple(sorted(map(str, outcomes))), n, extra, succ)


# ---------------------------------------------------------- StrategyDict
NAMES = ["lo", "pop", "l", "items"]      # "pop" and "items" are also dict methods: as strategy names they are attributes like any other


def _mk_funcs():
  def f0(*a, **k): return ("f0", a, tuple(sorted(k.items())))
  def f1(*a, **k): return ("f1", a, tuple(sorted(k.items())))
  def f2(*a, **k): return ("f2", a, tuple(sorted(k.items())))
  def f3(*a, **k): return ("f3", a, tuple(sorted(k.items())))
  return [f0, f1, f2, f3]


class EqStrat(object):
  """A strategy that is *equal* to every other EqStrat of the same index but a different object
  (like a bound method fetched twice): the dictionaries group values by equality."""
  def __init__(self, i):
    self.i = i
    self._vid = "f%d" % i
    self.__name__ = "f%d" % i
  def __eq__(self, other):
    return isinstance(other, EqStrat) and other.i == self.i
  def __ne__(self, other):
    return not self == other
  def __hash__(self):
    return hash(("EqStrat", self.i))
  def __call__(self, *a, **k):
    return ("f%d" % self.i, a, tuple(sorted(k.items())))


class FreshFuncs(object):
  """funcs[i] is a new equal object on every access."""
  fresh = True
  def __getitem__(self, i):
    return EqStrat(i)


def same(funcs, got, exp):
  if getattr(funcs, "fresh", False):
    return (got is exp) if not isinstance(exp, EqStrat) else (isinstance(got, EqStrat) and got == exp)
  return got is exp


class SDModel(Model):
  def __init__(self):
    Model.__init__(self)
    self.default = None        # index of the default strategy or None

  def copy(self):
    m = Model.copy(self)
    m.default = self.default
    return m

  def canon(self):
    return (tuple(sorted((v, tuple(ks)) for v, ks in self.groups)), self.default)

  def delete(self, key):
    g = self.group_of(key)
    if g is None:
      return "KeyError"
    last = len(g[1]) == 1
    self.remove(key)
    if last and self.default == g[0]:
      self.default = None
    return None

  def assign(self, keys, vi):
    for k in keys:
      self.delete(k)
    self.set(list(keys), vi)
    if self.default is None:
      self.default = vi


def sd_apply_model(m, op):
  if op[0] in ("set", "strategy"):
    m.assign(op[1], op[2])
    return None
  if op[0] == "del":
    return m.delete(op[1])
  if op[0] == "delattr":
    if m.group_of(op[1]) is None:
      return "AttributeError"
    return m.delete(op[1])
  if op[0] == "default":
    m.default = op[1]
    return None
  if op[0] == "deldefault":
    if m.default is None:
      return "skip"
    m.default = None
    return None
  raise ValueError(op)


def sd_apply_real(sd, funcs, op):
  try:
    if op[0] == "set":
      ks = op[1]
      sd[ks[0] if len(ks) == 1 and op[3] else tuple(ks)] = funcs[op[2]]
    elif op[0] == "strategy":
      r = sd.strategy(*op[1], keep_name=op[3])(funcs[op[2]])
      if r is not sd:
        return "strategy() did not return the dict"
    elif op[0] == "del":
      del sd[op[1]]
    elif op[0] == "delattr":
      delattr(sd, op[1])
    elif op[0] == "default":
      sd.default = funcs[op[1]]
    elif op[0] == "deldefault":
      del sd.default
    return None
  except Exception as exc:
    return type(exc).__name__


def build_sd(hist, fresh=False):
  sd = StrategyDict("sd_under_test")
  funcs = FreshFuncs() if fresh else _mk_funcs()
  m = SDModel()
  for op in hist:
    sd_apply_real(sd, funcs, op)
    sd_apply_model(m, op)
  return sd, funcs, m


def sd_ops(nnames, nfuncs, maxtuple):
  ops = []
  ns = NAMES[:nnames]
  for k in ns:
    ops.append(["del", k])
    ops.append(["delattr", k])
  ops.append(["del", "zz"])
  ops.append(["delattr", "zz"])
  ops.append(["deldefault"])
  for vi in range(nfuncs):
    ops.append(["default", vi])
    for k in ns:
      ops.append(["set", [k], vi, True])
      ops.append(["set", [k], vi, False])
      ops.append(["strategy", [k], vi, False])
    for n in range(2, maxtuple + 1):
      for t in itertools.product(ns, repeat=n):
        ops.append(["set", list(t), vi, False])
        if len(set(t)) == n:
          ops.append(["strategy", list(t), vi, True])
  return ops


def observe_sd(sd, funcs, m, nnames, nfuncs):
  for k in NAMES[:nnames]:
    g = m.group_of(k)
    try:
      got = sd[k]
    except KeyError:
      got = KeyError
    exp = funcs[g[0]] if g else KeyError
    if not same(funcs, got, exp):
      return ("sd[%r]" % k, _n(exp), _n(got))
    got = vars(sd).get(k, AttributeError)
    exp = funcs[g[0]] if g else AttributeError
    if not same(funcs, got, exp):
      return ("getattr(sd,%r)" % k, _n(exp), _n(got))
    if g:
      if sd.key2keys(k) != tuple(g[1]):
        return ("key2keys(%r)" % k, tuple(g[1]), sd.key2keys(k))
  for vi in range(nfuncs):
    g = m.group_val(vi)
    exp = tuple(g[1]) if g else ()
    got = sd.value2keys(funcs[vi])
    if got != exp:
      return ("value2keys(f%d)" % vi, exp, got)
  if len(sd) != len(m.groups):
    return ("len", len(m.groups), len(sd))
  got = sorted(_n(f) for f in sd)
  exp = sorted("f%d" % g[0] for g in m.groups)
  if got != exp:
    return ("list(sd)", exp, got)
  got = sorted(sd.keys())
  exp = sorted(tuple(g[1]) for g in m.groups)
  if got != exp:
    return ("sorted(sd.keys())", exp, got)
  # default and calling
  inst = vars(sd).get("default", None)
  exp = None if m.default is None else funcs[m.default]
  if not same(funcs, inst, exp):
    return ("default", _n(exp), _n(inst))
  res = sd(7, x=1)
  if m.default is None:
    if res is not NotImplemented:
      return ("call without default", "NotImplemented", repr(res))
  else:
    if res != ("f%d" % m.default, (7,), (("x", 1),)):
      return ("call", "f%d(7, x=1)" % m.default, repr(res))
  # internal maps
  kd = dict(sd._keys_dict)
  exp_kd = {k: tuple(g[1]) for g in m.groups for k in g[1]}
  if kd != exp_kd:
    return ("_keys_dict", exp_kd, kd)
  inv = {_n(f): ks for f, ks in sd._inv_dict.items()}
  exp_inv = {"f%d" % g[0]: tuple(g[1]) for g in m.groups}
  if inv != exp_inv:
    return ("_inv_dict", exp_inv, inv)
  stray = sorted(k for k in vars(sd) if k in NAMES and m.group_of(k) is None)
  if stray:
    return ("stray attributes", [], stray)
  return None


def _n(f):
  if f is KeyError or f is AttributeError:
    return f.__name__
  if f is None:
    return None
  return getattr(f, "_vid", None) or _fid(f)


def _fid(f):
  try:
    return f.__code__.co_name
  except AttributeError:
    return repr(f)


def run_sd_eq(case):
  return run_sd(case, fresh=True)


def run_sd(case, fresh=False):
  (nnames, nfuncs, maxtuple), hist = case
  cfg = [nnames, nfuncs, maxtuple]
  hist = [list(o) for o in hist]
  sd, funcs, m0 = build_sd(hist, fresh)
  succ = {("self:",) + m0.canon(): [cfg, hist]}
  n = changed = 0
  outcomes = set()
  first_bad = None
  o = observe_sd(sd, funcs, m0, nnames, nfuncs)
  if o is not None:
    return bad("sd:state:" + o[0].split("(")[0].split("[")[0],
               "observer disagrees with the model in the state reached by the history",
               {"observer": o[0], "value": o[1]}, {"value": o[2], "history": hist})
  for op in sd_ops(nnames, nfuncs, maxtuple):
    sd, funcs, m = build_sd(hist, fresh)
    before = m.canon()
    exp_exc = sd_apply_model(m, op)
    if exp_exc == "skip":
      continue
    got_exc = sd_apply_real(sd, funcs, op)
    n += 1
    outcomes.add((op[0], got_exc))
    if got_exc != exp_exc:
      if first_bad is None:
        first_bad = bad("sd:%s:exception" % op[0],
                        "operation raised / did not raise as the model says",
                        {"op": op, "exception": exp_exc},
                        {"exception": got_exc, "history": hist})
      continue
    o = observe_sd(sd, funcs, m, nnames, nfuncs)
    if o is not None:
      if first_bad is None:
        first_bad = bad("sd:%s:%s" % (op[0], o[0].split("(")[0].split("[")[0]),
                        "observer disagrees with the model after the operation",
                        {"op": op, "observer": o[0], "value": o[1]},
                        {"value": o[2], "history": hist})
      continue
    if op[0] == "strategy" and not op[3]:
      renamed = sd[op[1][0]] if fresh else funcs[op[2]]
      if renamed.__name__ != str(op[1][0]):
        if first_bad is None:
          first_bad = bad("sd:strategy:name", "strategy() must rename the function to the first name",
                          op[1][0], renamed.__name__)
        continue
    c = m.canon()
    if c != before:
      changed += 1
    succ.setdefault(c, [cfg, hist + [op]])
  extra = {"transitions": n, "transitions_changing_state": changed}
  if first_bad is not None:
    first_bad.n, first_bad.extra, first_bad.succ = n, extra, succ
    return first_bad
  return R(None, changed > 0, tuple(sorted(map(str, outcomes))), n, extra, succ)


# ------------------------------------------- long histories over a larger universe
WIDE_KEYS = ["k%d" % i for i in range(24)] + ["lo", "ol", "l", "o", "", "kk"]
WIDE_VALS = list(range(9)) + [1.0, 2.0, "v", ("t", 1)]


def gen_wide(run):
  for seed in range(run.pick(6, 40)):
    for kind in ("mkd", "sd"):
      yield (kind, seed, run.pick(600, 3000))


def run_wide(case):
  """A long deterministic history (pseudo-random, fixed by the seed) over 30 keys, 13 values and key
  tuples of up to 8 keys, the model compared after every step: sizes far beyond the closed universes."""
  kind, seed, steps = case
  v = seed * 7919 + 13
  def rnd(n):
    nonlocal v
    v = (v * 1103515245 + 12345) % (2 ** 31)
    return (v >> 7) % n
  if kind == "mkd":
    d, m = MultiKeyDict(), Model()
    keys, vals = WIDE_KEYS, WIDE_VALS
  else:
    d, m = StrategyDict("wide"), SDModel()
    keys = [k for k in WIDE_KEYS if k]          # strategy names are non-empty strings
    funcs = [EqStrat(i) for i in range(9)]
  changed = 0
  for step in range(steps):
    r = rnd(10)
    if r < 6:
      n = 1 + (rnd(8) if rnd(4) == 0 else rnd(2))
      ks = [keys[rnd(len(keys))] for _ in range(n)]
      if kind == "mkd":
        vi = rnd(len(vals))
        op = ["set", ks, vi, n == 1 and rnd(2) == 0]
        before = m.canon() if False else None
        m.set(list(ks), vals[vi])
        try:
          d[ks[0] if op[3] else tuple(ks)] = vals[vi]
        except Exception as exc:
          return bad("mkd:wide:exception", "assignment raised", {"step": step, "op": op}, repr(exc)[:200], True)
      else:
        vi = rnd(len(funcs))
        m.assign(ks, vi)
        try:
          d[ks[0] if n == 1 and rnd(2) else tuple(ks)] = EqStrat(vi)
        except Exception as exc:
          return bad("sd:wide:exception", "assignment raised", {"step": step, "keys": ks}, repr(exc)[:200], True)
    else:
      k = keys[rnd(len(keys))]
      if kind == "mkd":
        exp = "KeyError" if m.group_of(k) is None else None
        if exp is None:
          m.remove(k)
      else:
        exp = m.delete(k)
      try:
        del d[k]
        got = None
      except KeyError:
        got = "KeyError"
      if got != exp:
        return bad("%s:wide:del" % kind, "deleting raised / did not raise as the model says",
                   {"step": step, "key": k, "exception": exp}, got, True)
    # observers (cheap ones every step, all of them every 25 steps)
    if len(d) != len(m.groups):
      return bad("%s:wide:len" % kind, "len differs from the number of distinct values", len(m.groups),
                 {"len": len(d), "step": step}, True)
    if step % 25 == 0 or step == steps - 1:
      for k in keys:
        g = m.group_of(k)
        try:
          got = d[k]
        except KeyError:
          got = KeyError
        want = (vals[vals.index(g[0])] if kind == "mkd" else EqStrat(g[0])) if g else KeyError
        if not (got == want):
          return bad("%s:wide:item" % kind, "d[k] differs from the model after a long history",
                     {"step": step, "key": k, "value": repr(want)}, repr(got), True)
        if g and d.key2keys(k) != tuple(g[1]):
          return bad("%s:wide:key2keys" % kind, "key tuple differs from the model after a long history",
                     {"step": step, "key": k, "keys": g[1]}, d.key2keys(k), True)
      if sorted(map(repr, d.keys())) != sorted(repr(tuple(g[1])) for g in m.groups):
        return bad("%s:wide:keys" % kind, "the key tuples differ from the model", None, {"step": step}, True)
      if kind == "sd":
        inst = vars(d).get("default", None)
        if (m.default is None) != (inst is None) or (inst is not None and not (inst == EqStrat(m.default))):
          return bad("sd:wide:default", "default differs from the model after a long history",
                     m.default, {"step": step, "default": repr(getattr(inst, "_vid", inst))}, True)
  return R(None, True, (kind, len(m.groups) > 3))


KINDS = OrderedDict([
  ("mkd", Kind(None, run_mkd, chunk=8,
               rule="one case = one reachable state (its shortest history); all operations applied from it")),
  ("sd", Kind(None, run_sd, chunk=4,
              rule="one case = one reachable StrategyDict state; all operations applied from it")),
  ("sd-eq", Kind(None, run_sd_eq, chunk=4,
                 rule="the same search with strategies that are equal but never identical objects "
                      "(every assignment stores a fresh equal callable, like a bound method fetched twice)")),
  ("wide", Kind(gen_wide, run_wide, chunk=1, timeout=600, rule="long deterministic histories (600 / 3000 steps) over 30 keys x 13 values x key tuples up to 8, model compared after every step")),
])


def main(run):
  cov = {}
  total_states = total_trans = 0
  samples = []
  # MultiKeyDict: empty dict + every constructor call MultiKeyDict({k: v ...})
  cfg = cfg_mkd(run)
  nk, nv, _ = cfg
  inits = [[]]
  for n in range(1, min(nk, 3) + 1):
    for ks in itertools.permutations(KEYS[:nk], n):
      if list(ks) != sorted(ks) and n > 2:
        continue
      for vs in itertools.product(range(nv), repeat=n):
        inits.append([["init", [[k, v] for k, v in zip(ks, vs)]]])
  st = histories.bfs(run, "mkd", [(cfg, h) for h in run.rot(inits)])
  k = run.per_kind["mkd"]
  print("  mkd: %d states, %d transitions (%d changing state), depth %d, closed=%s, %d constructor-built initial states, %.1fs"
        % (st["states"], k["extra"]["transitions"], k["extra"]["transitions_changing_state"],
           st["depth"], st["closed"], len(inits) - 1, st["wall_s"]))
  cov["MultiKeyDict"] = {"universe": {"keys": nk, "values": [repr(v) for v in VALS[:nv]], "max_tuple": cfg[2]},
                         "states": st["states"], "transitions": k["extra"]["transitions"],
                         "transitions_changing_state": k["extra"]["transitions_changing_state"],
                         "bfs_depth_to_closure": st["depth"], "closed": st["closed"],
                         "levels": st["levels"], "constructor_initial_states": len(inits) - 1}
  total_states += st["states"]; total_trans += k["extra"]["transitions"]
  mkd_trans = k["extra"]["transitions"]
  deepest = max(st["seen"].values(), key=lambda h: len(h[1]), default=[None, []])
  samples.append({"object": "MultiKeyDict", "history": deepest[1]})
  if not st["closed"]:
    run.caps.append("MultiKeyDict search not closed")

  # a small universe with key tuples of length 3 (non-adjacent repeated keys such as (a, b, a))
  cfg3 = [3, 2, 3]
  st3 = histories.bfs(run, "mkd", [(cfg3, [])])
  k3 = run.per_kind["mkd"]
  print("  mkd (3 keys, 2 values, tuples <= 3): %d states, depth %d, closed=%s" % (st3["states"], st3["depth"], st3["closed"]))
  cov["MultiKeyDict-tuples3"] = {"universe": {"keys": 3, "values": 2, "max_tuple": 3}, "states": st3["states"],
                                 "bfs_depth_to_closure": st3["depth"], "closed": st3["closed"]}
  total_states += st3["states"]; total_trans += k3["extra"]["transitions"] - mkd_trans
  cfg = cfg_sd(run)
  st = histories.bfs(run, "sd", [(cfg, [])])
  k = run.per_kind["sd"]
  print("  sd : %d states, %d transitions (%d changing state), depth %d, closed=%s, %.1fs"
        % (st["states"], k["extra"]["transitions"], k["extra"]["transitions_changing_state"],
           st["depth"], st["closed"], st["wall_s"]))
  cov["StrategyDict"] = {"universe": {"names": cfg[0], "strategies": cfg[1], "max_tuple": cfg[2]},
                         "states": st["states"], "transitions": k["extra"]["transitions"],
                         "transitions_changing_state": k["extra"]["transitions_changing_state"],
                         "bfs_depth_to_closure": st["depth"], "closed": st["closed"],
                         "levels": st["levels"]}
  total_states += st["states"]; total_trans += k["extra"]["transitions"]
  deepest = max(st["seen"].values(), key=lambda h: len(h[1]), default=[None, []])
  samples.append({"object": "StrategyDict", "history": deepest[1]})
  st3s = histories.bfs(run, "sd", [(cfg_sd3(run), [])])
  print("  sd  (3 names, 2 strategies, tuples <= 3): %d states, depth %d, closed=%s" % (st3s["states"], st3s["depth"], st3s["closed"]))
  cov["StrategyDict-tuples3"] = {"universe": {"names": 3, "strategies": 2, "max_tuple": 3}, "states": st3s["states"],
                                 "bfs_depth_to_closure": st3s["depth"], "closed": st3s["closed"]}
  total_states += st3s["states"]
  ste = histories.bfs(run, "sd-eq", [(cfg, [])])
  ke = run.per_kind["sd-eq"]
  print("  sd-eq (equal, never identical strategies): %d states, %d transitions, depth %d, closed=%s"
        % (ste["states"], ke["extra"]["transitions"], ste["depth"], ste["closed"]))
  cov["StrategyDict-equal-not-identical"] = {"universe": {"names": cfg[0], "strategies": cfg[1], "max_tuple": cfg[2]},
                                             "states": ste["states"], "transitions": ke["extra"]["transitions"],
                                             "bfs_depth_to_closure": ste["depth"], "closed": ste["closed"]}
  total_states += ste["states"]
  if not ste["closed"]:
    run.caps.append("StrategyDict (equal strategies) search not closed")
  total_trans = (run.per_kind["mkd"]["extra"]["transitions"] + run.per_kind["sd"]["extra"]["transitions"]
                 + ke["extra"]["transitions"])
  if not st["closed"]:
    run.caps.append("StrategyDict search not closed")
  run.coverage.update({
    "states": total_states, "transitions": total_trans,
    "traces_validated_against_impl": total_trans,
    "max_depth": max(cov["MultiKeyDict"]["bfs_depth_to_closure"],
                     cov["StrategyDict"]["bfs_depth_to_closure"]),
    "objects": cov,
    "explanation": "every transition is executed on a fresh real object rebuilt by replaying "
                   "the shortest history of its source state; there is no separate model whose "
                   "traces need validating - the reference model is only the oracle",
  })
  run.samples = samples + run.samples
