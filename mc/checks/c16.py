"""
C16 - The mixer starts each event at its cumulative time and sums what plays.

E2 (merged breadth-first search over add/next histories of the real Streamix,
tie-free delta alphabet) + exhaustive unmerged "programs" (k events, every
delta/length combination, every non-decreasing choice of insertion points,
ties accepted either way) + drift runs with many non-dyadic deltas +
ControlStream set/read histories.

The oracle is the *statement*, not the algorithm: event i has
T_i = d_0 + ... + d_i, starts at max(nearest(T_i), samples already produced when
it was added), and sample n = zero + sum of the items due at n.
"""
from collections import OrderedDict
from fractions import Fraction as F
import itertools, math
from ..runner import Kind, R, bad
from ..exact import Q
from .. import histories

from audiolazy import Streamix, ControlStream, Stream

PROPERTY = "C16"
LEVEL = "model_checking"
RULE = ("(1) breadth-first search over all histories of add(delta,data)/next()/"
        "add(negative) with states merged by the statement-level model state; "
        "(2) every program of k events x deltas x lengths x insertion points, "
        "unmerged; (3) ControlStream assignment/read histories. A case is "
        "non-trivial when at least two events overlap or an event is added "
        "during playback")
ASSUMPTIONS = [
  "the mixer never inspects item values (items are labelled (j+1)*base**i so that a sum identifies "
  "which event contributed which item); base depends on VERIF_SEED",
  "merged search uses deltas that are multiples of 1/3, so no cumulative time is an exact tie and "
  "float clock error (<1e-14) cannot flip a comparison; exact ties (x.5) are explored in the "
  "unmerged programs, where either neighbour is accepted",
  "adding to a mixer whose iterator already raised StopIteration is outside the contract",
]

ZEROS = {"0": 0, "0.0": 0.0, "Q0": Q(0), "Q10": Q(10), "-2.5": -2.5}
BASES = [10, 7, 13, 100]


def bounds(run):
  return {"bfs": {"max_depth": run.pick(6, 8), "max_live_events": 3,
                  "max_events": run.pick(4, 5),
                  "deltas": ["0", "1", "2", "1/3", "2/3", "4/3", "7/3"],
                  "lengths": [0, 1, 3], "keep": [False, True],
                  "zeros": list(ZEROS)},
          "programs": {"events": run.pick(3, 4),
                       "deltas": PROG_DELTAS, "lengths": [0, 1, 3],
                       "insertion_points": "non-decreasing in 0..%d" % run.pick(4, 6)},
          "control": {"length": run.pick(8, 10)}}


def items(i, ln, base):
  return [(j + 1) * base ** i for j in range(ln)]


def as_data(i, vals):
  k = i % 4
  if k == 0: return list(vals)
  if k == 1: return tuple(vals)
  if k == 2: return Stream(list(vals))
  return (v for v in vals)


def num(fr):
  fr = F(fr)
  return int(fr) if fr.denominator == 1 else float(fr)


# ------------------------------------------------------------------ model
def nearest_choices(T):
  """Samples that are 'nearest' to time T (two at an exact tie)."""
  lo = math.floor(T)
  fr = T - lo
  if fr == F(1, 2):
    return [lo, lo + 1]
  return [lo if fr < F(1, 2) else lo + 1]


class Model(object):
  def __init__(self, keep, zero, base, ties=()):
    self.keep, self.zero, self.base = keep, zero, base
    self.ev = []           # dicts: T, added_at, len, start, items
    self.n = 0             # samples produced
    self.ended = False
    self.ties = list(ties) # per tie event: 0 = earlier sample, 1 = later
    self.tie_count = 0
    self.T = F(0)

  def add(self, delta, ln):
    delta = F(delta)
    self.T += delta
    ch = nearest_choices(self.T)
    if len(ch) == 2:
      pick = self.ties[self.tie_count] if self.tie_count < len(self.ties) else 0
      self.tie_count += 1
      s = ch[pick]
    else:
      s = ch[0]
    prev = self.ev[-1]["start"] if self.ev else 0
    start = max(s, self.n, prev)
    i = len(self.ev)
    self.ev.append({"T": self.T, "added_at": self.n, "len": ln, "start": start,
                    "items": items(i, ln, self.base)})

  def length(self):
    return max([e["start"] + e["len"] for e in self.ev] or [0])

  def next(self):
    """Expected result of next(): a value or 'stop'."""
    if self.ended:
      return "stop"
    n = self.n
    if not self.keep and n >= self.length():
      self.ended = True
      return "stop"
    v = self.zero
    for e in self.ev:
      if e["start"] <= n < e["start"] + e["len"]:
        v = v + e["items"][n - e["start"]]
    self.n += 1
    return v

  def canon(self):
    """Statement-level state relative to the current sample: pending events
    (relative start, length), remaining lengths of playing events and the
    cumulative time of the last event relative to now (what a future add
    depends on)."""
    n = self.n
    pending = tuple((e["start"] - n, e["len"]) for e in self.ev if e["start"] >= n)
    playing = tuple(sorted(e["start"] + e["len"] - n for e in self.ev
                           if e["start"] < n and e["start"] + e["len"] > n))
    return (self.ended, str(self.T - n), pending, playing)

  def live(self):
    n = self.n
    return sum(1 for e in self.ev if e["start"] + e["len"] > n or e["start"] >= n)


def replay(hist, keep, zk, base, ties=()):
  """Run the history on the real mixer and on the model.  Returns
  (model, observed, expected) where the lists hold one entry per operation."""
  zero = ZEROS[zk]
  sm = Streamix(keep=keep, zero=zero) if (keep or zk != "0.0") else Streamix()
  it = iter(sm)
  m = Model(keep, zero, base, ties)
  obs, exp = [], []
  for op in hist:
    if op[0] == "add":
      i = len(m.ev)
      m.add(op[1], op[2])
      try:
        r = sm.add(num(op[1]), as_data(i, m.ev[-1]["items"]))
        obs.append(None if r is None else repr(r))
      except Exception as exc:
        obs.append(type(exc).__name__)
      exp.append(None)
    elif op[0] == "setkeep":
      # keep is a public attribute: changing it while the mixer plays changes whether it ends
      m.keep = bool(op[1])
      try:
        sm.keep = bool(op[1])
        obs.append(None)
      except Exception as exc:
        obs.append(type(exc).__name__)
      exp.append(None)
    elif op[0] == "addneg":
      try:
        sm.add(num(op[1]), [5])
        obs.append("accepted")
      except ValueError:
        obs.append("ValueError")
      except Exception as exc:
        obs.append(type(exc).__name__)
      exp.append("ValueError")
    else:
      exp.append(m.next())
      try:
        obs.append(next(it))
      except StopIteration:
        obs.append("stop")
      except Exception as exc:
        obs.append(type(exc).__name__)
  return m, obs, exp


def same(a, b):
  if isinstance(a, str) or isinstance(b, str) or a is None or b is None:
    return a == b
  # zero + items: the value AND its type (1 is not 1.0 when the zero value is a float)
  return a == b and type(a) is type(b)


def first_diff(obs, exp):
  for k, (a, b) in enumerate(zip(obs, exp)):
    if not same(a, b):
      return k
  return None


# ------------------------------------------------------------ merged BFS
BFS_DELTAS = ["0", "1", "2", "1/3", "2/3", "4/3", "7/3"]
LENS = [0, 1, 3]


def bfs_ops(m, max_events):
  ops = [["next"], ["addneg", "-1"], ["addneg", "-1/4"]]
  if not m.ended:
    ops.append(["setkeep", not m.keep])
  if len(m.ev) < max_events and m.live() < 3 and not m.ended:
    for d in BFS_DELTAS:
      for ln in LENS:
        ops.append(["add", d, ln])
  if m.ended:
    ops = [["next"]]
  return ops


def run_bfs(case):
  (keep, zk, base, max_events), hist = case
  cfg = [keep, zk, base, max_events]
  hist = [list(o) for o in hist]
  m0, obs, exp = replay(hist, keep, zk, base)
  k = first_diff(obs, exp)
  if k is not None:
    return bad("mixer:history", "history disagrees with the statement-level model",
               {"step": k, "op": hist[k], "value": exp[k]},
               {"value": obs[k], "history": hist})
  succ = {("self:",) + (m0.keep, zk) + m0.canon(): [cfg, hist]}
  n = changed = 0
  first_bad = None
  outcomes = set()
  for op in bfs_ops(m0, max_events):
    h2 = hist + [op]
    m, obs, exp = replay(h2, keep, zk, base)
    n += 1
    a, b = obs[-1], exp[-1]
    outcomes.add((op[0], "stop" if a == "stop" else ("err" if isinstance(a, str) else "val")))
    if op[0] in ("addneg", "setkeep") and first_diff(obs, exp) is None:
      # these operations leave the model state where it was, so the search merges the successor with
      # its source: probe the REAL object here - play on for a while and add once more - so that
      # damage done by a rejected add (or a toggled keep) cannot hide behind the merged state
      probe = h2 + [["next"]] * 3 + [["add", "2/3", 1]] + [["next"]] * 6
      mp, obs_p, exp_p = replay(probe, keep, zk, base)
      if first_diff(obs_p, exp_p) is not None and first_bad is None:
        kk = first_diff(obs_p, exp_p)
        first_bad = bad("mixer:after-%s" % op[0], "after a rejected add / a change of keep the mixer must go on exactly "
                        "as the statement says", {"step": kk, "op": probe[kk], "value": exp_p[kk]},
                        {"value": obs_p[kk], "history": probe})
        continue
    if first_diff(obs, exp) is not None:
      if first_bad is None:
        kk = first_diff(obs, exp)
        first_bad = bad("mixer:%s" % op[0],
                        "operation result disagrees with the statement-level model",
                        {"step": kk, "op": h2[kk], "value": exp[kk]},
                        {"value": obs[kk], "history": h2})
      continue
    c = (m.keep, zk) + m.canon()
    if c != (m0.keep, zk) + m0.canon():
      changed += 1
    if m.ended and m0.ended:
      continue
    succ.setdefault(c, [cfg, h2])
  extra = {"transitions": n, "transitions_changing_state": changed}
  nontriv = len(m0.ev) >= 2 or any(e["added_at"] > 0 for e in m0.ev)
  if first_bad is not None:
    first_bad.n, first_bad.extra, first_bad.succ = n, extra, succ
    return first_bad
  return R(None, nontriv, tuple(sorted(outcomes)), n, extra, succ)


# --------------------------------------------------------- unmerged programs
PROG_DELTAS = ["0", "1", "2", "1/2", "3/2", "1/4", "11/4", "2/5", "7/5"]


def gen_programs(run):
  kmax = run.pick(3, 4)
  P = run.pick(4, 6)
  base = BASES[run.seed % len(BASES)]
  for k in range(0, kmax + 1):
    lens_alpha = LENS if k <= 3 else [0, 2]
    dl = PROG_DELTAS if k <= 3 else ["0", "1", "1/2", "3/2", "1/4", "2/5"]
    pts = list(itertools.combinations_with_replacement(range(P + 1), k))
    if k == 4:
      pts = [p for p in pts if p[-1] <= 4]
    for deltas in itertools.product(run.rot(dl), repeat=k):
      for keep in (False, True):
        zk = ["0", "0.0", "Q0", "Q10", "-2.5"][(len(deltas) + keep + sum(map(len, deltas))) % 5]
        # one shard = all lengths x insertion points for this delta vector
        yield (k, list(deltas), keep, zk, base, lens_alpha, P if k < 4 else 4)


def expand_programs(shard):
  k, deltas, keep, zk, base, lens_alpha, P = shard
  for lens in itertools.product(lens_alpha, repeat=k):
    for pts in itertools.combinations_with_replacement(range(P + 1), k):
      yield (deltas, list(lens), list(pts), keep, zk, base)


def program_history(deltas, lens, pts, horizon):
  hist, consumed = [], 0
  for d, ln, p in zip(deltas, lens, pts):
    while consumed < p:
      hist.append(["next"]); consumed += 1
    hist.append(["add", d, ln])
  for _ in range(horizon):
    hist.append(["next"])
  return hist


def run_program(case):
  deltas, lens, pts, keep, zk, base = case
  total = sum(F(d) for d in deltas)
  horizon = int(total) + 3 + max(list(lens) + [0]) + (max(pts) if pts else 0) + 2
  hist = program_history(deltas, lens, pts, horizon)
  # number of exact-tie events decides how many tie assignments the model may use
  T, nt = F(0), 0
  for d in deltas:
    T += F(d)
    if (T - math.floor(T)) == F(1, 2):
      nt += 1
  sm_obs = None
  fails = []
  for ties in itertools.product((0, 1), repeat=nt):
    m, obs, exp = replay(hist, keep, zk, base, ties)
    if sm_obs is None:
      sm_obs = obs
    # a history that tries to consume after the end is not a program of the
    # contract if it adds afterwards: cut at the first expected stop followed by an add
    cut = len(hist)
    for i, e in enumerate(exp):
      if e == "stop" and any(o[0] == "add" for o in hist[i:]):
        cut = i
        break
    k = first_diff(obs[:cut], exp[:cut])
    if k is None:
      nontriv = (len(deltas) >= 2 and overlap(m)) or any(p > 0 for p in pts)
      return R(None, nontriv, (len(m.ev), m.length() if not keep else -1, nt > 0),
               extra={"ops": cut, "tie_programs": int(nt > 0)})
    fails.append((k, exp[k], obs[k]))
  k, e, o = fails[0]
  key = "mixer:program:" + ("tie" if nt else "stop" if (e == "stop" or o == "stop") else "value")
  return bad(key, "mixer output differs from zero + sum of the items due at each sample "
             "(event i starting at max(nearest(d_0+..+d_i), samples produced when added))",
             {"step": k, "op": hist[k], "value": e, "tie_assignments_tried": len(fails)},
             {"value": o, "history": hist})


def overlap(m):
  ev = m.ev
  for a in range(len(ev)):
    for b in range(a + 1, len(ev)):
      if ev[a]["start"] < ev[b]["start"] + ev[b]["len"] and ev[b]["start"] < ev[a]["start"] + ev[a]["len"]:
        return True
  return False


# ----------------------------------------------------------------- drift
def gen_drift(run):
  for d in ["1/10", "3/10", "2/5", "7/5", "1/3", "9/10", "11/10", "1/7", "16/7"]:
    for count in run.pick([5, 10, 25, 60], [5, 10, 25, 60, 150, 400]):
      for ln in (1, 2):
        for keep in (False, True):
          yield (d, count, ln, keep)
  # mixed deltas
  for pat in (["2/5", "3/5"], ["1/10", "1/5", "7/10"], ["1/3", "5/3"], ["3/4", "1/4", "1/2", "1/2"]):
    for count in run.pick([12, 40], [12, 40, 200]):
      yield ("|".join(pat), count, 1, False)


def run_drift(case):
  d, count, ln, keep = case
  pat = d.split("|")
  zero = 0
  sm = Streamix(keep=keep, zero=zero)
  T = F(0)
  starts = []
  for i in range(count):
    dl = pat[i % len(pat)]
    T += F(dl)
    starts.append((T, i))
    sm.add(num(dl), [1] * ln)
  L = None
  horizon = int(T) + ln + 3
  out = []
  it = iter(sm)
  for _ in range(horizon):
    try:
      out.append(next(it))
    except StopIteration:
      break
  # expected: count of events playing at n, with either neighbour allowed at exact ties
  def playing(n, lo):
    c = 0
    for T_, i in starts:
      ch = nearest_choices(T_)
      s = ch[0] if lo else ch[-1]
      if s <= n < s + ln: c += 1
    return c
  # without ties lo == hi; with ties accept per-sample values between the two extremes
  bad_at = None
  explen = max(nearest_choices(starts[-1][0])) + ln if starts else 0
  explen_lo = min(nearest_choices(starts[-1][0])) + ln if starts else 0
  for n in range(len(out)):
    a, b = playing(n, True), playing(n, False)
    lo, hi = min(a, b), max(a, b)
    # cumulative counts decide exactly; a per-sample band is used only around ties
    if not (lo <= out[n] <= hi) if a != b else out[n] != a:
      bad_at = n
      break
  if bad_at is not None:
    return bad("mixer:drift:value", "start times drift when many fractional deltas are accumulated",
               {"sample": bad_at, "events_playing": playing(bad_at, True)},
               {"value": out[bad_at], "delta": d, "events": count})
  if not keep and not (explen_lo <= len(out) <= explen):
    return bad("mixer:drift:length", "output length is not max(T_i + len_i)",
               explen, {"length": len(out), "delta": d, "events": count})
  if sum(out) != count * ln and not keep:
    return bad("mixer:drift:sum", "some event items were lost or duplicated",
               count * ln, sum(out))
  return R(None, True, (len(out) // 10,))


# --------------------------------------------------------- ControlStream
def gen_control(run):
  L = run.pick(8, 10)
  for route in ("direct", "expr", "expr-rev", "iter-once", "mixer", "mixer-late"):
    for n in range(0, L + 1):
      if n < L and n > 4:
        continue
      for h in itertools.product("abn", repeat=n):
        yield (route, "".join(h))
  # the ControlStream object itself goes out of scope (d) after some assignments; what was built from it lives on
  for route in ("expr", "expr-rev", "iter-once", "mixer", "mixer-late"):
    for n in range(0, 4):
      for h in itertools.product("abn", repeat=n):
        yield (route, "".join(h) + "dnnn")
  # any object is a legal value, None and other falsy ones included (z = None, f = 0.0, e = ())
  for route in ("direct", "iter-once"):
    for n in range(1, 7):
      for h in itertools.product("anzfe", repeat=n):
        if any(c in "zfe" for c in h) and "n" in h:
          yield (route, "".join(h))


def run_control(case):
  route, h = case
  vals = {"a": 7, "b": -2, "z": None, "f": 0.0, "e": ()}
  cs = ControlStream(5)
  cur = 5
  if h[:1] in ("z", "f", "e"):
    cs = ControlStream(vals[h[0]])         # falsy / None already at construction
    cur = vals[h[0]]
  if route == "direct":
    src = cs
    f = lambda v: v
  elif route == "expr":
    src = Stream(1, 3) + cs
    f = None
  elif route == "expr-rev":
    src = 10 - cs
    f = lambda v: 10 - v
  elif route in ("mixer", "mixer-late"):
    # the ControlStream played as a mixer event: the item due at sample n is read when sample n is
    # asked for, so the mixer shows the value most recently assigned (no read ahead)
    src = Streamix(zero=100)
    if route == "mixer":
      src.add(0, cs)
      f = lambda v: 100 + v
    else:
      src.add(0, [1, 1])
      src.add(2, cs * 2)
      f = None
  else:
    src = iter(cs)
    f = lambda v: v
  k = 0
  reads = 0
  for i, c in enumerate(h):
    if c == "n":
      got = src.take() if route != "iter-once" else next(src)
      if route == "expr":
        exp = (1, 3)[k % 2] + cur
      elif route == "mixer-late":
        exp = 101 if k < 2 else 100 + 2 * cur
      else:
        exp = f(cur)
      k += 1
      reads += 1
      if got != exp or type(got) is not type(exp):
        return bad("control:read", "ControlStream did not yield the value most recently assigned",
                   {"step": i, "value": exp}, {"value": got, "history": h})
    elif c == "d":
      # the program drops its own reference to the ControlStream (only what was derived from it is kept,
      # e.g. a helper returned `data * gain`): the derived stream goes on with the last value
      cs = None
      import gc
      gc.collect()
    else:
      cs.value = vals[c]
      cur = vals[c]
      if cs.value != cur:
        return bad("control:attr", "value attribute not stored", cur, cs.value)
  return R(None, reads > 0 and ("a" in h or "b" in h), (reads,))


# ------------------------------------------------------------ calling routes
from ..routes import routes_agree


def route_table():
  T = OrderedDict()
  c = lambda v: (lambda: v)
  def mix(*a, **k):
    sm = Streamix(*a, **k)
    sm.add(0, [1, 2])
    sm.add(4, [10])
    return sm.take(8)
  T["Streamix"] = (mix, [("keep", c(True)), ("zero", c(-7))], lambda v: [repr(e) for e in v])
  def add(*a, **k):
    sm = Streamix()
    sm.add(0, [1, 2, 3, 4])
    sm.add(*a, **k)
    return list(sm)
  T["Streamix.add"] = (add, [("delta", c(2)), ("data", lambda: [10, 20, 30])], lambda v: [repr(e) for e in v])
  return T


def gen_routes(run):
  for name in route_table():
    yield (name,)


def run_routes(case):
  f, spec, canon = route_table()[case[0]]
  return routes_agree(case[0], f, spec, canon)


def gen_types(run):
  from ..routes import struct_params
  try:
    T = route_table()
  except Exception:
    T = {}
  for name, ent in T.items():
    if struct_params(ent[1]):
      yield (name,)


def run_types(case):
  from ..routes import struct_params, types_agree
  ent = route_table()[case[0]]
  return types_agree(case[0], ent[0], ent[1], ent[2], struct_params(ent[1]))



# ------------------------------------------- zero values / items that are not numbers; mixers in mixers
def gen_composite(run):
  for zk in ("str", "tuple", "Fraction", "complex"):
    for prog in ("melody", "chord", "overlap", "late"):
      yield ("zero-kind", zk, prog)
    # every order in which 3 or 4 overlapping events can end (all permutations of their lengths) x every
    # stagger of their starts: an event that is not the most recent one ends while others go on (seed C16-W:
    # swap-with-last removal reorders the sum, visible only for items whose + does not commute)
    for k in (3, 4):
      for lens in itertools.permutations(range(1, k + 1)):
        for deltas in itertools.product((0, 1), repeat=k - 1):
          yield ("zero-kind", zk, tuple(zip((0,) + deltas, lens)))
  for shape in ("plain-before", "plain-after", "plain-outlives", "two-submixers", "alternate-two-mixers", "submixer-of-submixer"):
    for keep in (False, True):
      yield ("nested", shape, keep)


def run_composite(case):
  """(1) the zero value and the items may be anything that adds (strings and tuples concatenate): sample n is the
  zero value plus the items due at n, in the order their events started; (2) an event may itself be a mixer."""
  what, a, b = case
  if what == "zero-kind":
    mk = {"str": (lambda i, j: "abcdefgh"[i] + str(j)), "tuple": (lambda i, j: (i, j)),
          "Fraction": (lambda i, j: F(i + 1, j + 2)), "complex": (lambda i, j: complex(i, j + 1))}[a]
    zero = {"str": "", "tuple": (), "Fraction": F(0), "complex": 0j}[a]
    plan = {"melody": [(0, 2), (2, 2), (2, 1)], "chord": [(0, 3), (0, 2), (0, 1)], "overlap": [(0, 4), (1, 2), (1, 3)],
            "late": [(0, 2), (5, 2)]}[b] if isinstance(b, str) else [tuple(x) for x in b]
    sm = Streamix(zero=zero)
    T, evs = 0, []
    for i, (delta, ln) in enumerate(plan):
      T += delta
      items_ = [mk(i, j) for j in range(ln)]
      evs.append((T, items_))
      sm.add(delta, list(items_))
    total = max(t + len(it_) for t, it_ in evs)
    exp = []
    for n in range(total):
      v = zero
      for t, it_ in evs:
        if t <= n < t + len(it_):
          v = v + it_[n - t]
      exp.append(v)
    try:
      got = list(sm)
    except Exception as exc:
      return bad("mixer:zero-kind:exception", "a mixer whose zero value and items are %s raised" % a, [repr(v) for v in exp], repr(exc)[:200], True)
    if got != exp or any(type(g) is not type(e) for g, e in zip(got, exp)):
      return bad("mixer:zero-kind:value", "sample n is the zero value plus the items due at n (items: %s)" % a,
                 [repr(v) for v in exp], [repr(v) for v in got], True)
    return R(None, True, (a, b if isinstance(b, str) else "perm%d" % len(b)))
  shape, keep = a, b
  N = 9
  def inner(base):
    m = Streamix()
    m.add(0, [base + 1, base + 2, base + 3, base + 4])
    m.add(1, [base + 10, base + 20])
    return m, [base + 1, 2 * base + 12, 2 * base + 23, base + 4]
  try:
    if shape == "alternate-two-mixers":
      m1, e1 = inner(0)
      m2, e2 = inner(500)
      got1, got2 = [], []
      i1, i2 = iter(m1), iter(m2)
      for _ in range(4):
        got1.append(next(i1)); got2.append(next(i2))
      if got1 != e1 or got2 != e2:
        return bad("mixer:two-mixers", "two mixers consumed alternately are independent", [e1, e2], [got1, got2], True)
      return R(None, True, (shape, keep))
    outer = Streamix(keep=keep)
    parts = []          # (start, values)
    if shape == "plain-before":
      outer.add(0, [100, 200]); parts.append((0, [100, 200]))
      m, e = inner(0); outer.add(0, m); parts.append((0, e))
      outer.add(1, [1000]); parts.append((1, [1000]))
    elif shape == "plain-after":
      m, e = inner(0); outer.add(0, m); parts.append((0, e))
      outer.add(1, [100, 200]); parts.append((1, [100, 200]))
    elif shape == "plain-outlives":
      outer.add(0, [100, 200, 300, 400, 500, 600]); parts.append((0, [100, 200, 300, 400, 500, 600]))
      m, e = inner(0); outer.add(1, m); parts.append((1, e))
    elif shape == "two-submixers":
      outer.add(0, [7]); parts.append((0, [7]))
      m, e = inner(0); outer.add(0, m); parts.append((0, e))
      m2, e2 = inner(500); outer.add(2, m2); parts.append((2, e2))
    else:
      m, e = inner(0)
      mid = Streamix(); mid.add(0, [50]); mid.add(0, m)
      emid = [e[0] + 50] + e[1:]
      outer.add(0, [100, 200]); parts.append((0, [100, 200]))
      outer.add(1, mid); parts.append((1, emid))
    total = max(t + len(v) for t, v in parts)
    exp = [sum(v[n - t] for t, v in parts if t <= n < t + len(v)) for n in range(total)]
    got = outer.take(total + 3) if keep else list(outer)
    if keep:
      exp = exp + [0.0] * 3
  except Exception as exc:
    return bad("mixer:nested:exception", "a mixer holding a mixer as one of its events (%s) raised" % shape, None, repr(exc)[:200], True)
  if got != exp:
    return bad("mixer:nested:value", "a mixer as an event of another mixer (%s): sample n is the sum of the items due at n" % shape,
               exp, got, True)
  return R(None, True, (shape, keep))

KINDS = OrderedDict([
  ("bfs", Kind(None, run_bfs, chunk=16,
               rule="one case = one merged mixer state (its shortest history); every operation applied from it")),
  ("programs", Kind(gen_programs, run_program, expand=expand_programs, chunk=4,
                    rule="k events x deltas x lengths x insertion points, consumed to the end; "
                         "non-trivial: overlapping events or an addition during playback")),
  ("drift", Kind(gen_drift, run_drift, chunk=2,
                 rule="many events with the same non-dyadic delta; non-trivial: all")),
  ("control", Kind(gen_control, run_control, chunk=2000,
                   rule="all words over {assign a, assign b, read}; non-trivial: >=1 assignment and >=1 read")),
  ("composite", Kind(gen_composite, run_composite, chunk=64, rule="zero values / items that are strings, tuples, Fractions, complex x (4 programs + every ending order of 3 and 4 overlapping events x every 0/1 stagger of their starts); mixers as events of mixers x 6 shapes x keep")),
  ("call-routes", Kind(gen_routes, run_routes, chunk=1,
                       rule="each function with every documented parameter set: all positional / all keyword / every split must agree")),
  ("param-types", Kind(gen_types, run_types, chunk=1,
                       rule="structural integer parameters given as integral float / Fraction / bool: same result wherever the type is accepted")),
])


def main(run):
  base = BASES[run.seed % len(BASES)]
  maxd = run.pick(6, 8)
  maxev = run.pick(4, 5)
  inits = []
  for keep in (False, True):
    for zk in ZEROS:
      inits.append([[keep, zk, base, maxev], []])
  st = histories.bfs(run, "bfs", inits, max_depth=maxd)
  k = run.per_kind["bfs"]
  print("  bfs: %d states, %d transitions (%d changing state), depth %d, closed=%s, %.1fs"
        % (st["states"], k["extra"]["transitions"], k["extra"]["transitions_changing_state"],
           st["depth"], st["closed"], st["wall_s"]))
  deepest = max(st["seen"].values(), key=lambda c: len(c[1]), default=[[None], []])
  run.samples.insert(0, {"kind": "bfs", "deepest_history": deepest[1]})
  traces = k["extra"]["transitions"] + run.per_kind["programs"]["evaluations"] + \
      run.per_kind["drift"]["evaluations"] + run.per_kind["control"]["evaluations"]
  run.coverage.update({
    "states": st["states"], "transitions": k["extra"]["transitions"],
    "traces_validated_against_impl": traces,
    "max_depth": st["depth"], "bfs_levels": st["levels"], "bfs_closed": st["closed"],
    "depth_bound": maxd,
    "programs_ops_executed": run.per_kind["programs"]["extra"].get("ops", 0),
    "tie_programs": run.per_kind["programs"]["extra"].get("tie_programs", 0),
    "explanation": "states/transitions are those of the merged breadth-first search (depth bound %d, "
                   "<=3 live events); 'programs', 'drift' and 'control' are exhaustive unmerged history "
                   "enumerations, each executed on the real objects" % maxd,
  })
