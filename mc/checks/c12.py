"""
C12 - Frequency response is the transfer function and matches the time domain.

E1 on an explicit frequency grid: for every filter of the pool and every grid
frequency, z0 = exp(-jw) is taken as the exact dyadic complex number the library
itself computes, numerator and denominator are evaluated in exact rational
complex arithmetic, and the library's float result must lie within a rounding
bound derived for its evaluation scheme (points where the bound is not small
against |denominator| are skipped and counted).  Cascades multiply, parallel
banks add (including branches that share a denominator), containers of
frequencies are mapped element by element; the time-domain links (DFT of an
impulse response, steady-state response to a complex exponential, dft
linearity / DC bin / multi-frequency calls) are checked with bounds of the same kind.
"""
from collections import OrderedDict, deque
from fractions import Fraction as F
import itertools, math, cmath
from ..runner import Kind, R, bad

from audiolazy import ZFilter, z, CascadeFilter, ParallelFilter, Stream, dft

PROPERTY = "C12"
LEVEL = "exploration"
RULE = ("filter pool x frequency grid ({0, pi, k*pi/8} + uniform grid in [0, 2pi)); cascades / parallel "
        "banks of 1..3 pool filters x a coarser grid; FIR filters x frequency lists for the DFT links; "
        "non-trivial: the filter has feedback or more than two taps")
ASSUMPTIONS = [
  "grid-exhaustive, not continuum: nothing is claimed between grid points",
  "rounding bound: 32*(n+1)*u*sum|c_k| per polynomial evaluation, propagated through the quotient; "
  "grid points where it exceeds |denominator|/4 are skipped and counted",
]

U = 2.0 ** -53


class C(object):
  """Exact complex rational."""
  __slots__ = ("re", "im")
  def __init__(self, re, im=0):
    self.re, self.im = F(re), F(im)
  @staticmethod
  def of(zf):
    zf = complex(zf)
    return C(F(zf.real), F(zf.imag))
  def __add__(self, o): return C(self.re + o.re, self.im + o.im)
  def __sub__(self, o): return C(self.re - o.re, self.im - o.im)
  def __mul__(self, o): return C(self.re * o.re - self.im * o.im, self.re * o.im + self.im * o.re)
  def __truediv__(self, o):
    d = o.re * o.re + o.im * o.im
    return C((self.re * o.re + self.im * o.im) / d, (self.im * o.re - self.re * o.im) / d)
  def abs(self): return math.hypot(float(self.re), float(self.im))
  def is_zero(self): return self.re == 0 and self.im == 0
  def cfloat(self): return complex(float(self.re), float(self.im))


def peval(coefs, x):
  """sum c_k x^k exactly; coefs: list of Fractions."""
  acc = C(0)
  p = C(1)
  for c in coefs:
    acc = acc + C(c) * p
    p = p * x
  return acc


def pool(tier):
  nums = [["1"], ["1", "1"], ["1", "-1"], ["2", "1"], ["0", "1"], ["1", "0", "1"], ["1", "-2", "1"],
          ["1/2", "1", "-3"], ["1", "1", "1", "1"], ["3", "-1/2", "0", "2"]]
  dens = [["1"], ["1", "-1"], ["2", "1"], ["1", "0", "1"], ["1", "-1/2"], ["1", "-9/10"], ["1", "-1", "1/2"],
          ["1", "0", "0", "1/8"], ["4"], ["-1/2"]]       # single-term denominators other than 1: a pure gain
  if tier != "quick":
    nums += [["-1", "2", "3", "-2"], ["1", "0", "0", "-1"], ["0", "0", "2"]]
    dens += [["3", "-2", "1"], ["1", "3/2", "1/2"], ["1", "0", "-81/100"]]
  return [[n, d] for n in nums for d in dens]


def mk(spec, typ="float"):
  b, a = spec
  conv = (lambda c: float(F(c))) if typ == "float" else (lambda c: F(c) if F(c).denominator != 1 else int(F(c)))
  return ZFilter([conv(c) for c in b], [conv(c) for c in a])


def coefs(spec, typ="float"):
  b, a = spec
  if typ == "float":
    return [F(float(F(c))) for c in b], [F(float(F(c))) for c in a]
  return [F(c) for c in b], [F(c) for c in a]


def grid(n):
  g = [0.0, math.pi] + [k * math.pi / 8 for k in range(1, 16)]
  g += [2 * math.pi * k / n + 1e-3 for k in range(n)]
  return g


def bounds(run):
  return {"pool": len(pool(run.tier)), "grid_points": len(grid(run.pick(64, 1024))),
          "bank_parts": "1..3", "bank_grid": 24}


def exact_H(spec, w, typ="float"):
  nb, na = coefs(spec, typ)
  z0 = C.of(cmath.exp(-1j * w))
  N, D = peval(nb, z0), peval(na, z0)
  eN = 32 * (len(nb) + 1) * U * float(sum(abs(c) for c in nb))
  eD = 32 * (len(na) + 1) * U * float(sum(abs(c) for c in na))
  return N, D, eN, eD


def compare(got, N, D, eN, eD):
  """None if ok / skipped-flag, else message."""
  if D.is_zero():
    if isinstance(got, float) and got != got:
      return "nan-ok"
    return ("nan", "where the denominator vanishes the response must be nan", "nan", got)
  dabs = D.abs()
  if eD > dabs / 4:
    return "skipped"
  H = N / D
  bound = (eN + H.abs() * eD) / dabs * 2 + 8 * U * H.abs()
  if not isinstance(got, complex) and not isinstance(got, float):
    return ("type", "frequency response must be a complex number", "complex", type(got).__name__)
  if abs(complex(got) - H.cfloat()) > bound:
    return ("value", "freq_response differs from sum b_k e^{-jwk} / sum a_k e^{-jwk} beyond the rounding bound",
            {"H": [H.cfloat().real, H.cfloat().imag], "bound": bound}, [complex(got).real, complex(got).imag])
  return "ok"


def gen_single(run):
  n = run.pick(64, 1024)
  for spec in run.rot(pool(run.tier)):
    for typ in ("float", "exact"):
      yield (spec, typ, n)


def run_single(case):
  spec, typ, n = case
  filt = mk(spec, typ)
  nt = len(spec[1]) > 1 or len(spec[0]) > 2
  skipped = 0
  ws = grid(n)
  decoy = ZFilter([c + 1 for c in filt.numerator], [c * 2 if i else c for i, c in enumerate(filt.denominator)])
  for w in ws:
    try:
      decoy.freq_response(w)           # another filter of the same shape at the same frequency first
      got = filt.freq_response(w)
    except Exception as exc:
      return bad("freq_response:exception:" + type(exc).__name__, "freq_response raised", {"w": w}, str(exc)[:160], nt)
    r = compare(got, *exact_H(spec, w, typ))
    if r == "skipped":
      skipped += 1
    elif not isinstance(r, str):
      return bad("freq_response:" + r[0], r[1], {"w": w, "expected": r[2]}, r[3], nt)
  # containers of frequencies: mapped element by element, kind preserved
  sub = ws[2:9]
  one = [filt.freq_response(w) for w in sub]
  for kind, arg in (("list", list(sub)), ("tuple", tuple(sub)), ("deque", deque(sub)),
                    ("stream", Stream(list(sub))), ("generator", (w for w in sub))):
    out = filt.freq_response(arg)
    if kind in ("list", "tuple", "deque") and type(out) is not type(arg):
      return bad("freq_response:container", "container kind must be preserved", kind, type(out).__name__, nt)
    if kind == "stream" and not isinstance(out, Stream):
      return bad("freq_response:container", "Stream in, Stream out", "Stream", type(out).__name__, nt)
    vals = list(out)
    if len(vals) != len(one) or any(not (a == b or (a != a and b != b)) for a, b in zip(vals, one)):
      return bad("freq_response:elementwise", "container result must be the scalar result per element", one[:3], vals[:3], nt)
  return R(None, nt, (typ, skipped > 0), len(ws), {"grid_points": len(ws), "skipped_ill_conditioned": skipped})


def gen_banks(run):
  P = pool("quick")
  sub = [P[i] for i in (0, 9, 12, 21, 33, 36, 44, 52, 60, 71)]
  for n in (1, 2, 3):
    for combo in itertools.product(range(len(sub)), repeat=n):
      if n == 3 and combo[0] > 4:
        continue
      yield ([sub[i] for i in combo],)
  # branches sharing one non-trivial denominator
  for d in (["1", "-1/2"], ["1", "-1", "1/2"], ["2", "1"]):
    yield ([[["1"], d], [["0", "1"], d]],)
    yield ([[["1", "1"], d], [["2"], d], [["1", "-1"], d]],)


def run_bank(case):
  specs = case[0]
  ws = [0.0, math.pi] + [0.05 + 2 * math.pi * k / 22 for k in range(22)]
  cas = CascadeFilter([mk(s) for s in specs])
  par = ParallelFilter([mk(s) for s in specs])
  nt = len(specs) > 1
  for w in ws:
    parts = [exact_H(s, w) for s in specs]
    if any(D.is_zero() or eD > D.abs() / 4 for N, D, eN, eD in parts):
      continue
    Hs = [N / D for N, D, eN, eD in parts]
    rel = [((eN + H.abs() * eD) / D.abs() * 2 + 8 * U * H.abs()) for (N, D, eN, eD), H in zip(parts, Hs)]
    prod = C(1)
    for H in Hs:
      prod = prod * H
    tot = C(0)
    for H in Hs:
      tot = tot + H
    mags = [H.abs() for H in Hs]
    bprod = sum(r * (prod.abs() / m if m else 0) for r, m in zip(rel, mags)) * 2 + 16 * U * prod.abs() + 1e-300
    bsum = sum(rel) * 2 + 16 * U * sum(mags)
    gc, gp = cas.freq_response(w), par.freq_response(w)
    if abs(complex(gc) - prod.cfloat()) > bprod:
      return bad("freq_response:cascade", "cascade response must be the product of the parts' responses",
                 {"w": w, "H": str(prod.cfloat())}, str(gc), nt)
    if abs(complex(gp) - tot.cfloat()) > bsum:
      return bad("freq_response:parallel", "parallel response must be the sum of the parts' responses",
                 {"w": w, "H": str(tot.cfloat())}, str(gp), nt)
  # a bank that is used, then changed in place (+=, append, item assignment), then used again
  if len(specs) >= 2:
    for how in ("+=", "append", "extend", "setitem", "*="):
      c2, p2 = CascadeFilter([mk(s) for s in specs[:-1]]), ParallelFilter([mk(s) for s in specs[:-1]])
      c2.freq_response(0.7), p2.freq_response(0.7), c2.is_lti(), p2.is_lti()
      want = specs
      if how == "+=":
        c2 += [mk(specs[-1])]; p2 += [mk(specs[-1])]
      elif how == "append":
        c2.append(mk(specs[-1])); p2.append(mk(specs[-1]))
      elif how == "extend":
        c2.extend([mk(specs[-1])]); p2.extend([mk(specs[-1])])
      elif how == "setitem":
        c2[0] = mk(specs[-1]); p2[0] = mk(specs[-1])
        want = [specs[-1]] + specs[1:-1]
      else:
        c2 *= 2; p2 *= 2
        want = specs[:-1] * 2
      for w in (0.7, 2.1):
        parts = [exact_H(s, w) for s in want]
        if any(D.is_zero() or eD > D.abs() / 4 for N, D, eN, eD in parts):
          continue
        Hs = [N / D for N, D, eN, eD in parts]
        prod, tot = C(1), C(0)
        for H in Hs:
          prod, tot = prod * H, tot + H
        tolc = 1e-9 * (1 + prod.abs())
        if abs(complex(c2.freq_response(w)) - prod.cfloat()) > tolc or \
           abs(complex(p2.freq_response(w)) - tot.cfloat()) > 1e-9 * (1 + tot.abs()):
          return bad("freq_response:bank-changed-in-place", "a cascade / parallel bank changed in place (%s) after "
                     "having been used must respond as its current members" % how,
                     {"w": w, "cascade": str(prod.cfloat()), "parallel": str(tot.cfloat())},
                     {"cascade": str(c2.freq_response(w)), "parallel": str(p2.freq_response(w))}, nt)
  lst = cas.freq_response(list(ws[:4]))
  if not isinstance(lst, list) or len(lst) != 4:
    return bad("freq_response:container", "cascade response over a list must be a list", "list", type(lst).__name__, nt)
  # every container kind of frequencies, on the bank itself and on a bank nested in a bank:
  # the result is the scalar result per element, as many as there are frequencies
  sub = ws[3:10]
  same = lambda a, b: a == b or (a != a and b != b)
  for name, bank in (("cascade", cas), ("parallel", par),
                     ("cascade-of-parallel", CascadeFilter([par, mk(specs[0])])),
                     ("parallel-of-cascade", ParallelFilter([cas, mk(specs[-1])]))):
    one = [bank.freq_response(w) for w in sub]
    # the nested structure itself: (sum of the parts) x first part, (product of the parts) + last part
    for w, got1 in zip(sub, one):
      parts = [exact_H(s_, w) for s_ in specs]
      if any(D.is_zero() or eD > D.abs() / 4 for N, D, eN, eD in parts):
        continue
      Hs = [N / D for N, D, eN, eD in parts]
      prod, tot = C(1), C(0)
      for H in Hs:
        prod, tot = prod * H, tot + H
      want = {"cascade": prod, "parallel": tot, "cascade-of-parallel": tot * Hs[0],
              "parallel-of-cascade": prod + Hs[-1]}[name]
      scale = 1 + want.abs() + sum(H.abs() for H in Hs) ** 2
      if abs(complex(got1) - want.cfloat()) > 1e-9 * scale:
        return bad("freq_response:nested", "%s: the response must be that of the nested structure" % name,
                   {"w": w, "H": str(want.cfloat())}, str(got1), nt)
    for kind, arg in (("list", list(sub)), ("tuple", tuple(sub)), ("stream", Stream(list(sub))),
                      ("generator", (w for w in sub)), ("endless-stream", Stream(list(sub)).append(Stream(0.3).limit(50)))):
      out = bank.freq_response(arg)
      if kind in ("list", "tuple") and type(out) is not type(arg):
        return bad("freq_response:container", "container kind must be preserved (%s)" % name, kind, type(out).__name__, nt)
      if kind.endswith("stream") and not isinstance(out, Stream):
        return bad("freq_response:container", "Stream in, Stream out (%s)" % name, "Stream", type(out).__name__, nt)
      vals = out.take(len(sub) + 1) if kind == "endless-stream" else list(out)
      want = one + ([bank.freq_response(0.3)] if kind == "endless-stream" else [])
      if len(vals) != len(want) or any(not same(a, b) for a, b in zip(vals, want)):
        return bad("freq_response:bank-elementwise", "%s.freq_response over a %s of frequencies must be the scalar "
                   "result per element" % (name, kind), [str(v) for v in want[:4]], [str(v) for v in vals[:4]], nt)
  return R(None, nt, len(specs))


# ------------------------------------------------------------- time domain
def fir_pool():
  return [[1.0], [1.0, 1.0], [1.0, -1.0], [0.5, 0.25, -0.125], [2.0, 0.0, 1.0, -3.0], [0.0, 0.0, 1.0],
          [1.0, 2.0, 3.0, 4.0, 5.0], [-1.0, 0.5, 0.0, 0.0, 0.25, 2.0]] + \
         [[float(((7 * k * k + 3 * k) % 11) - 5) / 4 or 0.25 for k in range(n)] for n in (33, 65, 130)]     # long responses


def gen_time(run):
  n = run.pick(24, 96)
  for hi, h in enumerate(fir_pool()):
    yield ("dft-vs-response", hi, n)
    yield ("exponential", hi, n)
    if len(h) <= 6:
      for a0 in (2.0, -0.5, 4.0):      # a pure gain in the denominator: the same division in both domains
        yield ("exponential", hi, n, a0)
        yield ("impulse-vs-response", hi, n, a0)
  for L in (1, 2, 3, 5, 8, 33, 64, 65, 200):
    for which in ("defining-sum", "multi-frequency", "linearity", "dc-mean"):
      yield (which, L, n)
    if L <= 65:
      yield ("complex-block", L, n)


def dft_exact(blk, f):
  acc = C(0)
  for n_, x in enumerate(blk):
    acc = acc + C(F(x)) * C.of(cmath.exp(-1j * n_ * f))
  return acc


def run_time(case):
  which, arg, n = case[:3]
  a0 = case[3] if len(case) > 3 else 1.0
  ws = [0.0, math.pi, 0.3, 1.0, 2.5, 4.0, 6.0] + [2 * math.pi * k / n + 0.01 for k in range(n)]
  if which == "dft-vs-response":
    h = fir_pool()[arg]
    filt = ZFilter(list(h))
    for w in ws:
      d = dft(list(h), [w], normalize=False)
      if not isinstance(d, list) or len(d) != 1:
        return bad("dft:shape", "dft over one frequency must give a one-item list", 1, d)
      H = filt.freq_response(w)
      tol = 64 * len(h) * U * sum(abs(c) for c in h)
      if abs(d[0] - H) > tol:
        return bad("dft:impulse-response", "unnormalised DFT of a FIR impulse response must equal freq_response",
                   {"w": w, "H": str(H)}, str(d[0]))
    return R(None, len(h) > 2, which)
  if which == "impulse-vs-response":
    # the impulse response actually produced by running the filter, transformed, is the response
    h = fir_pool()[arg]
    # the same taps with other gain-only denominators are run first in this process: nothing remembered
    # from those calls may leak into this filter (several filters differing in the gain only)
    for other in (1.0, 8.0, -a0):
      list(ZFilter(list(h), [other])([1.0, 2.0, 0.5], zero=0.0))
    filt = ZFilter(list(h), [a0])
    imp = list(filt([1.0] + [0.0] * (len(h) + 2), zero=0.0))
    for w in ws[:16]:
      d = dft(list(imp), [w], normalize=False)[0]
      H = filt.freq_response(w)
      if abs(d - H) > 64 * len(h) * U * sum(abs(c) for c in h) / abs(a0) + 1e-300:
        return bad("dft:run-impulse-response", "the DFT of the impulse response obtained by RUNNING the filter must equal "
                   "freq_response (gain-only denominator %r)" % a0, {"w": w, "H": str(H)}, str(d))
    return R(None, len(h) > 1, which)
  if which == "exponential":
    h = fir_pool()[arg]
    for other in (1.0, 8.0, -a0):
      list(ZFilter(list(h), [other])([1.0, 2.0, 0.5], zero=0.0))
    filt = ZFilter(list(h), [a0]) if a0 != 1.0 else ZFilter(list(h))
    for w in ws[:12]:
      N = len(h) + 6
      x = [cmath.exp(1j * w * k) for k in range(N)]
      y = list(filt(x, zero=0))
      H = filt.freq_response(w)
      for k in range(len(h) - 1, N):
        tol = 64 * len(h) * U * sum(abs(c) for c in h)
        if abs(y[k] - H * x[k]) > tol:
          return bad("freq_response:exponential", "a complex exponential through a FIR filter must be scaled by "
                     "freq_response once the memory is full", {"w": w, "n": k, "y": str(H * x[k])}, str(y[k]))
    return R(None, len(h) > 2, which)
  L = arg
  if which == "complex-block":
    # complex samples (dyadic parts): the same defining sum, linear over complex scalars
    cb = [complex(((3 * k) % 7) - 3, ((5 * k * k) % 9 - 4) / 2.0) for k in range(L)]
    mag = sum(abs(v) for v in cb)
    for w in ws:
      acc = C(0)
      for n_, xv in enumerate(cb):
        acc = acc + C(F(xv.real), F(xv.imag)) * C.of(cmath.exp(-1j * n_ * w))
      for norm in (True, False):
        got = dft(list(cb), [w], normalize=norm)[0]
        e = acc.cfloat() / (L if norm else 1)
        if abs(got - e) > 32 * L * U * mag:
          return bad("dft:complex-block", "dft of a complex block is not the defining sum",
                     {"w": w, "normalize": norm, "X": str(e)}, str(got))
      a = 2 - 1.5j
      lhs = dft([a * v for v in cb], [w], normalize=False)[0]
      rhs = a * dft(list(cb), [w], normalize=False)[0]
      if abs(lhs - rhs) > 64 * L * U * abs(a) * mag:
        return bad("dft:complex-linearity", "dft must be linear over complex scalars", str(rhs), str(lhs))
    # a FIR with complex taps: unnormalised dft of its impulse response = freq_response
    filt = ZFilter(list(cb))
    for w in ws[:12]:
      d = dft(list(cb), [w], normalize=False)[0]
      if abs(d - filt.freq_response(w)) > 64 * L * U * mag:
        return bad("dft:impulse-response", "unnormalised DFT of a complex FIR impulse response must equal freq_response",
                   {"w": w, "H": str(filt.freq_response(w))}, str(d))
    return R(None, L > 1, which)
  blk = [F(v) for v in [3, -1, F(1, 2), 4, -2, 0, 7, 1][:L]]
  if L > 8:
    blk = [F(((5 * k * k + k) % 13) - 6, 2) for k in range(L)]
  fl = [float(v) for v in blk]
  if which == "defining-sum":
    # besides the common grid: the block's own FFT bins, written the two usual ways
    bins = [2 * math.pi * k / L for k in range(L)] + [k * (2 * math.pi / L) for k in range(L)] + \
           [k * 2 * math.pi / L for k in range(L, 2 * L, max(1, L // 7))]
    for w in ws + bins:
      for norm in (True, False):
        got = dft(list(fl), [w], normalize=norm)[0] if not norm else dft(list(fl), [w])[0]
        e = dft_exact(blk, w).cfloat() / (L if norm else 1)
        if abs(got - e) > 32 * L * U * sum(abs(v) for v in fl):
          return bad("dft:defining-sum", "dft is not the defining sum", {"w": w, "normalize": norm, "X": str(e)}, str(got))
    return R(None, L > 1, which)
  if which == "multi-frequency":
    # several frequencies in one call (in various orders) must equal the one-frequency results
    for order in (ws[2:7], ws[6:1:-1], [ws[4], 0.0, ws[2], math.pi], ws[:]):
      many = dft(list(fl), list(order), normalize=False)
      if len(many) != len(order):
        return bad("dft:shape", "one output per frequency, in order", len(order), len(many))
      for w, v in zip(order, many):
        e = dft_exact(blk, w).cfloat()
        if abs(v - e) > 32 * L * U * sum(abs(x) for x in fl):
          return bad("dft:multi-frequency", "dft over a list of frequencies must give each frequency's "
                     "defining sum, in the order given", {"w": w, "X": str(e)}, str(v))
      # the frequencies as any iterable (tuple, one-shot iterator, generator, Stream - the documented
      # `line(size, 0, 2 * pi, finish=False)` grid is a Stream): the list's answer
      from audiolazy import Stream as _Stream
      for fk, conv in (("tuple", tuple), ("iterator", iter), ("generator", lambda v: (f_ for f_ in v)),
                       ("Stream", lambda v: _Stream(list(v))), ("map", lambda v: map(float, v))):
        try:
          alt = list(dft(list(fl), conv(list(order)), normalize=False))
        except Exception as exc:
          return bad("dft:frequency-container", "dft with the frequencies given as a %s raised" % fk, None, repr(exc)[:200])
        if len(alt) != len(many) or any(abs(p_ - q_) > 1e-9 * (1 + abs(q_)) for p_, q_ in zip(alt, many)):
          return bad("dft:frequency-container", "dft with the frequencies given as a %s must give the list's answer" % fk,
                     [str(v_) for v_ in many[:4]], [str(v_) for v_ in alt[:4]])
    return R(None, True, which)
  if which == "linearity":
    other = [float(v) for v in ([1, 2, -3, 0.5, 0, 1, 1, -1] * (L // 8 + 1))[:L]]
    for w in ws[:10]:
      a, b = 2.5, -0.75
      lhs = dft([a * x + b * y for x, y in zip(fl, other)], [w])[0]
      rhs = a * dft(list(fl), [w])[0] + b * dft(list(other), [w])[0]
      if abs(lhs - rhs) > 64 * L * U * (abs(a) * sum(map(abs, fl)) + abs(b) * sum(map(abs, other))):
        return bad("dft:linearity", "dft must be linear in the block", str(rhs), str(lhs))
    return R(None, L > 1, which)
  # dc-mean
  got = dft(list(fl), [0.0])[0]
  mean = sum(fl) / L
  if abs(got - mean) > 8 * U * sum(map(abs, fl)):
    return bad("dft:dc-mean", "the DC bin of the normalised dft must be the block mean", mean, str(got))
  got2 = dft(list(fl), [0.0, 0.0, 0.0], normalize=False)
  if any(abs(v - sum(fl)) > 8 * U * sum(map(abs, fl)) for v in got2):
    return bad("dft:dc-sum", "the unnormalised DC bin must be the block sum", sum(fl), str(got2))
  return R(None, L > 1, which)


# ------------------------------------------------------------ calling routes
from ..routes import routes_agree


def route_table():
  T = OrderedDict()
  c = lambda v: (lambda: v)
  cx = lambda vs: [[round(complex(v).real, 12), round(complex(v).imag, 12)] for v in vs]
  T["dft"] = (dft, [("blk", lambda: [1.0, -2.0, 0.5, 4.0, 0.0]), ("freqs", lambda: [0.0, 0.7, math.pi]), ("normalize", c(False))], cx)
  filt = ZFilter([1.0, 0.5], [1.0, -0.25])
  T["ZFilter.freq_response"] = (filt.freq_response, [("freq", c(0.7))], lambda v: cx([v]))
  T["CascadeFilter.freq_response"] = (CascadeFilter(filt, 1 - z ** -1).freq_response, [("freq", c(0.7))], lambda v: cx([v]))
  T["ParallelFilter.freq_response"] = (ParallelFilter(filt, 1 - z ** -1).freq_response, [("freq", c(0.7))], lambda v: cx([v]))
  return T


def gen_routes(run):
  for name in route_table():
    yield (name,)


def run_routes(case):
  f, spec, canon = route_table()[case[0]]
  return routes_agree(case[0], f, spec, canon)


def gen_types(run):
  from ..routes import struct_params
  try:
    T = route_table()
  except Exception:
    T = {}
  for name, ent in T.items():
    if struct_params(ent[1]):
      yield (name,)


def run_types(case):
  from ..routes import struct_params, types_agree
  ent = route_table()[case[0]]
  return types_agree(case[0], ent[0], ent[1], ent[2], struct_params(ent[1]))


KINDS = OrderedDict([
  ("single", Kind(gen_single, run_single, chunk=2, rule="filter x coefficient type; all grid frequencies inside the case")),
  ("banks", Kind(gen_banks, run_bank, chunk=10, rule="cascade / parallel of 1..3 filters incl. shared denominators")),
  ("time", Kind(gen_time, run_time, chunk=2, rule="DFT / steady-state links for FIR filters; dft properties")),
  ("call-routes", Kind(gen_routes, run_routes, chunk=1,
                       rule="each function with every documented parameter set: all positional / all keyword / every split must agree")),
  ("param-types", Kind(gen_types, run_types, chunk=1,
                       rule="structural integer parameters given as integral float / Fraction / bool: same result wherever the type is accepted")),
])
