"""
C01 - Stream operators and broadcast functions act element by element.

E1: (a) every operator method of the table (taken from OpMethod, not
hard-coded) x operand kinds x length pairs x element types, through the dunder
itself and through Python syntax, against an independent list interpreter that
also predicts *where* and *with which exception type* an element-level error
must surface (lazily); (b) all expression trees up to the depth bound;
(c) every broadcasting function of lazy_math / lazy_midi x container kinds,
including the lazy kinds, which must not read their input before being consumed.
"""
from collections import OrderedDict, deque
from fractions import Fraction as F
import itertools, math, cmath, operator, types
from ..runner import Kind, R, bad
from ..sources import CountingSource

import audiolazy
from audiolazy import Stream, OpMethod, elementwise, lazy_math, lazy_midi

PROPERTY = "C01"
LEVEL = "exploration"
RULE = ("(a) operator method x route (dunder/syntax) x other-operand kind x (len_self, len_other) x "
        "element type; (b) expression trees of depth <= bound over int leaves (Stream/list/scalar/"
        "periodic Stream); (c) broadcasting function x container kind x calling route. Non-trivial: "
        "operands of unequal length, a reflected or unary operator, a nested tree, a non-scalar container")
ASSUMPTIONS = [
  "reference semantics: Python's own operator on the i-th elements; where Python raises for an "
  "element pair the Stream must raise the same exception type when that element is requested",
  "matmul is exercised with a small 2x2 integer matrix class",
]

SYMBOL = {
  "+": lambda a, b: a + b, "-": lambda a, b: a - b, "*": lambda a, b: a * b,
  "/": lambda a, b: a / b, "//": lambda a, b: a // b, "%": lambda a, b: a % b,
  "**": lambda a, b: a ** b, ">>": lambda a, b: a >> b, "<<": lambda a, b: a << b,
  "&": lambda a, b: a & b, "|": lambda a, b: a | b, "^": lambda a, b: a ^ b,
  "<": lambda a, b: a < b, "<=": lambda a, b: a <= b, "==": lambda a, b: a == b,
  "!=": lambda a, b: a != b, ">": lambda a, b: a > b, ">=": lambda a, b: a >= b,
  "@": lambda a, b: a @ b,
}
UNARY = {"+": lambda a: +a, "-": lambda a: -a, "~": lambda a: ~a}


class M(object):
  """2x2 integer matrix (for @)."""
  def __init__(self, a, b, c, d): self.v = (a, b, c, d)
  def __matmul__(self, o):
    if not isinstance(o, M): return NotImplemented
    a, b, c, d = self.v; e, f, g, h = o.v
    return M(a * e + b * g, a * f + b * h, c * e + d * g, c * f + d * h)
  def __eq__(self, o): return isinstance(o, M) and self.v == o.v
  def __hash__(self): return hash(self.v)
  def __repr__(self): return "M%r" % (self.v,)


VALUES = {
  "int": ([5, -3, 0, 7], [2, 0, -1, 3]),
  "bool": ([True, False, True, True], [False, True, True, False]),
  "float": ([5.0, 7.0, -0.25, 10.0], [0.5, 3.0, -1.5, 0.0]),
  "complex": ([1 + 2j, -1j, 0j, 2 + 0j], [2 - 1j, 1 + 0j, 3j, 0j]),
  "Fraction": ([F(1, 2), F(-3, 4), F(0), F(5, 3)], [F(2), F(1, 3), F(-1, 2), F(0)]),
  "matrix": ([M(1, 2, 3, 4), M(0, 1, 1, 0), M(2, 0, 0, 2), M(1, 1, 0, 1)],
             [M(1, 0, 0, 1), M(1, 1, 1, 1), M(0, -1, 1, 0), M(3, 1, 4, 1)]),
}
KINDS_OTHER = ["stream", "list", "tuple", "generator", "scalar", "periodic", "constant",
               "repeat-finite", "stream-of-repeat", "range-like", "deque", "iterator"]


def bounds(run):
  return {"operators": len(list(OpMethod.get("all"))), "element_types": list(VALUES),
          "other_kinds": KINDS_OTHER, "lengths": [0, 1, 2, 3], "tree_depth": run.pick(2, 3),
          "functions": sorted(function_table()), "containers": CONTAINERS}


def try_elem(f, *a):
  try:
    return ("v", f(*a))
  except Exception as exc:
    return ("e", type(exc).__name__)


def consume(stream, limit):
  """Items until the end or the first exception: (items, exception type name or None)."""
  out = []
  it = iter(stream)
  try:
    for _ in range(limit):
      out.append(next(it))
    return out, "limit"
  except StopIteration:
    return out, None
  except Exception as exc:
    return out, type(exc).__name__


def same_val(a, b):
  if isinstance(a, float) and isinstance(b, float) and a != a and b != b:
    return True
  return type(a) is type(b) and a == b


def make_other(kind, vals, n):
  v = vals[:n]
  if kind == "stream": return Stream(list(v)), list(v), False
  if kind == "list": return list(v), list(v), False
  if kind == "tuple": return tuple(v), list(v), False
  if kind == "generator": return (x for x in v), list(v), False
  if kind == "scalar": return vals[1], vals[1], True
  if kind == "periodic": return Stream(*vals[:2]), [vals[i % 2] for i in range(8)], False
  if kind == "constant": return Stream(vals[2]), [vals[2]] * 8, False
  # a FINITE constant operand (itertools.repeat with a count): it ends like any other iterable
  if kind == "repeat-finite": return itertools.repeat(vals[1], n), [vals[1]] * n, False
  if kind == "stream-of-repeat": return Stream(itertools.repeat(vals[1], n)), [vals[1]] * n, False
  if kind == "range-like": return (vals[i] for i in range(len(v))), list(v), False
  if kind == "deque": return deque(v), list(v), False
  if kind == "iterator": return iter(list(v)), list(v), False
  raise ValueError(kind)


def gen_ops(run):
  ops = list(OpMethod.get("all"))
  for op in run.rot(ops):
    for typ in VALUES:
      if (op.symbol == "@") != (typ == "matrix"):
        continue
      if op.arity == 1:
        for n in (0, 1, 2, 3):
          for route in ("dunder", "syntax"):
            yield (op.dname, typ, "none", n, 0, route)
        continue
      for ok in KINDS_OTHER:
        for n in (0, 1, 2, 3):
          for m in ((0, 1, 2, 3) if ok in ("stream", "list", "tuple", "generator", "repeat-finite", "stream-of-repeat",
                                           "range-like", "deque", "iterator") else (0,)):
            for route in ("dunder", "syntax"):
              if route == "syntax" and op.rev and op.symbol == "**" and typ == "Fraction":
                continue   # Fraction.__pow__ converts itself to float before Python tries __rpow__
              yield (op.dname, typ, ok, n, m, route)


def run_op(case):
  dname, typ, ok, n, m, route = case
  op = next(OpMethod.get(dname))
  if dname not in vars(Stream) and not hasattr(Stream, dname):
    return bad("op:missing", "operator method not installed on Stream", dname, None)
  mine, theirs = VALUES[typ]
  nt = op.rev or op.arity == 1 or (ok not in ("scalar", "periodic", "constant", "none") and n != m)
  if op.arity == 1:
    s = Stream(list(mine[:n]))
    res = getattr(s, dname)() if route == "dunder" else UNARY[op.symbol](s)
    exp = [try_elem(UNARY[op.symbol], a) for a in mine[:n]]
  else:
    s = Stream(list(mine[:n]))
    other, olist, scalar = make_other(ok, theirs, m)
    f = SYMBOL[op.symbol]
    if route == "dunder":
      res = getattr(s, dname)(other)
    elif op.rev:
      # a generator has no comparison operators of its own: Python itself falls back to
      # identity for == / != before trying the reflected method only when types differ
      res = f(other, s)
    else:
      res = f(s, other)
    pairs = [(a, olist if scalar else None) for a in mine[:n]]
    left = mine[:n]
    right = [olist] * len(left) if scalar else olist
    L = min(len(left), len(right))
    if op.rev:
      exp = [try_elem(f, right[i], left[i]) for i in range(L)]
    else:
      exp = [try_elem(f, left[i], right[i]) for i in range(L)]
  if not isinstance(res, Stream):
    return bad("op:type", "operator on a Stream must give a Stream", "Stream", type(res).__name__, nt)
  exp_items, exp_exc = [], None
  for tag, v in exp:
    if tag == "e":
      exp_exc = v
      break
    exp_items.append(v)
  got, exc = consume(res, len(exp_items) + 3)
  if exc == "limit":
    return bad("op:length", "result must end with the shortest iterable operand", len(exp_items), "longer", nt)
  if len(got) != len(exp_items) or any(not same_val(g, e) for g, e in zip(got, exp_items)):
    return bad("op:value", "i-th output is not the operator applied to the i-th elements",
               {"op": dname, "items": exp_items, "then": exp_exc}, {"items": got, "then": exc}, nt)
  if exc != exp_exc:
    return bad("op:exception", "an element-level error must surface as the same exception type when "
               "that element is requested", {"after": len(exp_items), "exception": exp_exc},
               {"after": len(got), "exception": exc}, nt)
  return R(None, nt, (op.symbol, op.rev, op.arity, exp_exc is not None))


# ----------------------------------------- equal scalars of different types
SCALAR_FAMILIES = [[2, 2.0, F(2), 2 + 0j], [2.0, 2, F(2)], [1, True, 1.0, F(1)], [True, 1], [0, False, 0.0],
                   [3, F(3), 3.0], [F(3), 3], [-1, -1.0, F(-1)]]


def gen_scalar_types(run):
  for op in OpMethod.get("all"):
    if op.arity != 2 or op.symbol == "@":
      continue
    for fi in range(len(SCALAR_FAMILIES)):
      for elems in ("int", "Fraction", "float", "bigint"):
        if elems == "bigint" and op.symbol in ("**", "<<"):
          continue        # astronomically large results
        yield (op.dname, fi, elems)


def run_scalar_types(case):
  """The same operator applied in sequence, in one process, to scalars that are == but of
  different types: each result must be computed with the scalar actually given."""
  dname, fi, elems = case
  op = next(OpMethod.get(dname))
  f = SYMBOL[op.symbol]
  data = {"int": [5, 7, 10], "Fraction": [F(5), F(7, 2), F(1, 3)], "float": [5.0, 7.0, 0.3],
          "bigint": [2 ** 60 + 1, 3, -2 ** 61 - 1]}[elems]
  for c in SCALAR_FAMILIES[fi]:
    s = Stream(list(data))
    res = getattr(s, dname)(c)
    exp = [try_elem(f, c, a) if op.rev else try_elem(f, a, c) for a in data]
    items, exc = [], None
    for tag, v in exp:
      if tag == "e":
        exc = v
        break
      items.append(v)
    got, gexc = consume(res, len(items) + 2)
    if len(got) != len(items) or any(not same_val(g, e) for g, e in zip(got, items)) or gexc != exc:
      return bad("op:scalar-type", "a scalar operand must be used as given, whatever equal-valued scalars "
                 "of other types the operator was applied to before",
                 {"op": dname, "scalar": repr(c), "items": items, "then": exc}, {"items": got, "then": gexc})
  return R(None, True, (op.symbol, op.rev))


# ------------------------------------------------------------------ trees
LEAVES = ["S123", "S40", "list", "scalar2", "scalar-1", "periodic", "S-empty"]
TREE_OPS = ["+", "-", "*", "//", "%", "**", "<<", ">>", "&", "|", "^", "<", "==", ">=", "/"]
TREE_UNARY = ["-", "~", "+"]


def leaf(name):
  """(real object, reference: ('seq', list) | ('scalar', v))"""
  if name == "S123": return Stream([1, 2, 3]), ("seq", [1, 2, 3])
  if name == "S40": return Stream([4, 0, -2, 5]), ("seq", [4, 0, -2, 5])
  if name == "list": return [3, -1, 2], ("seq", [3, -1, 2])
  if name == "scalar2": return 2, ("scalar", 2)
  if name == "scalar-1": return -1, ("scalar", -1)
  if name == "periodic": return Stream(1, 0), ("seq", [1, 0] * 6)
  if name == "S-empty": return Stream([]), ("seq", [])
  raise ValueError(name)


def ref_tree(t):
  """Reference value: ('scalar', v) or ('seq', iterator).  Sequences are combined with the
  builtin map over plain lists, which fixes where an element-level exception surfaces
  (operands are pulled left to right, the shortest one ends the result)."""
  if t[0] == "leaf":
    k, v = leaf(t[1])[1]
    return (k, v) if k == "scalar" else (k, iter(v))
  if t[0] == "u":
    k, v = ref_tree(t[2])
    f = UNARY[t[1]]
    if k == "scalar":
      return ("scalar", f(v))
    return ("seq", map(f, v))
  a, b = ref_tree(t[2]), ref_tree(t[3])
  f = SYMBOL[t[1]]
  if a[0] == "scalar" and b[0] == "scalar":
    return ("scalar", f(a[1], b[1]))
  if a[0] == "scalar":
    return ("seq", map(lambda y, c=a[1]: f(c, y), b[1]))
  if b[0] == "scalar":
    return ("seq", map(lambda x, c=b[1]: f(x, c), a[1]))
  return ("seq", map(f, a[1], b[1]))


def real_tree(t):
  if t[0] == "leaf":
    return leaf(t[1])[0]
  if t[0] == "u":
    return UNARY[t[1]](real_tree(t[2]))
  a = real_tree(t[2])
  b = real_tree(t[3])
  return SYMBOL[t[1]](a, b)


def has_stream(t):
  if t[0] == "leaf":
    return t[1].startswith("S") or t[1] == "periodic"
  return any(has_stream(s) for s in t[2:])


def is_plain_python(t):
  """Sub-expressions without any Stream are ordinary Python (list + list ...): skip trees
  in which such a sub-expression would not be element-wise to begin with."""
  if t[0] == "leaf":
    return True
  if not has_stream(t):
    return all(s[0] == "leaf" and s[1].startswith("scalar") for s in t[2:]) and False
  return all(is_plain_python(s) for s in t[2:])


def depth1():
  for op in TREE_OPS:
    for a in LEAVES:
      for b in LEAVES:
        yield ["b", op, ["leaf", a], ["leaf", b]]
  for op in TREE_UNARY:
    for a in LEAVES:
      yield ["u", op, ["leaf", a]]


def gen_trees(run):
  d1 = [t for t in depth1() if has_stream(t)]
  for t in d1:
    yield t
  sub = d1 if run.tier != "quick" else d1
  for t in sub:
    for op in run.rot(TREE_OPS):
      for l in LEAVES:
        yield ["b", op, t, ["leaf", l]]
        yield ["b", op, ["leaf", l], t]
    for op in TREE_UNARY:
      yield ["u", op, t]
  if run.tier != "quick":
    rep = ["+", "-", "*", "//", "<", "&"]
    for t1 in d1:
      for t2 in d1[::4]:
        for op in rep:
          for u in (None, "-"):
            t = ["b", op, t1, t2]
            yield t if u is None else ["u", u, t]


def run_tree(case):
  t = case
  try:
    res = real_tree(t)
  except Exception as exc:
    return bad("tree:build:" + type(exc).__name__, "building a Stream expression raised (must be lazy)",
               None, str(exc)[:200])
  if not isinstance(res, Stream):
    return bad("tree:type", "expression with a Stream operand must be a Stream", "Stream", type(res).__name__)
  kind, seq = ref_tree(t)
  exp_items, exp_exc = consume(seq, 12)
  got, exc = consume(res, 12)
  if len(got) != len(exp_items) or any(not same_val(g, e) for g, e in zip(got, exp_items)) or exc != exp_exc:
    return bad("tree:value", "nested expression is not element by element",
               {"items": exp_items, "then": exp_exc}, {"items": got, "then": exc})
  return R(None, t[0] != "leaf" and any(s[0] != "leaf" for s in t[2:]), (t[1], exp_exc is not None))


# ------------------------------------------------------ broadcast functions
CONTAINERS = ["scalar", "list", "tuple", "deque", "set", "stream", "generator", "range", "map",
              "filter", "zip", "enumerate", "tuple-subclass", "list-subclass", "deque-subclass", "frozenset"]


class Frame(tuple):
  """User subclasses of the built-in containers: 'the same kind of container' is the subclass."""
  def total(self):
    return len(self)


class Samples(list):
  pass


class Ring(deque):
  pass
DOMAIN = {
  "acos": [0.5, -0.25, 1.0], "asin": [0.5, -0.25, 1.0], "atanh": [0.5, -0.25, 0.0],
  "acosh": [1.0, 1.5, 2.5], "factorial": [0, 3, 5], "gamma": [0.5, 1.0, 4.0], "lgamma": [0.5, 1.0, 4.0],
  "str2midi": ["C4", "A#3", "Bb2"], "str2freq": ["C4", "A#3", "Bb2"], "midi2str": [60, 61, 69],
  "freq2str": [440.0, 220.0, 261.6], "freq2midi": [440.0, 220.0, 261.6], "midi2freq": [69, 60, 57.5],
  "phase": [1j, -1.0, 1 + 1j], "cexp": [1j, 0.5, 1 - 1j], "log": [1.0, 0.5, 8.0], "ln": [1.0, 0.5, 8.0],
  "log10": [1.0, 100.0, 0.5], "log2": [1.0, 8.0, 0.5], "log1p": [0.0, 1.0, -0.5],
  "dB10": [1.0, 100.0, 0.5], "dB20": [1.0, 100.0, 0.5], "sign": [-2.5, 0, 3], "absolute": [-2.5, 0, 3 + 4j],
}
DEFAULT_DOMAIN = [0.5, 1.0, 2.0]


def function_table():
  tab = {}
  for mod in (lazy_math, lazy_midi):
    for name in mod.__all__:
      f = getattr(mod, name)
      if callable(f) and isinstance(f, types.FunctionType) and name != "octaves":
        tab[name] = f
  return tab


def plain_value(name, x):
  """Independent scalar value, or None when only self-consistency is checked."""
  if name in lazy_math._math_names:
    return getattr(math, name)(x)
  if name in ("log", "ln"): return math.log(x)
  if name == "log10": return math.log(x, 10)
  if name == "log2": return math.log(x, 2)
  if name == "log1p": return math.log1p(x)
  if name == "dB10": return 10 * math.log10(abs(x))
  if name == "dB20": return 20 * math.log10(abs(x))
  if name == "sign": return (x > 0) - (x < 0)
  if name == "absolute": return abs(x)
  if name == "cexp": return cmath.exp(x)
  if name == "phase": return cmath.phase(x)
  if name == "factorial": return math.factorial(x)
  if name == "midi2freq": return 440.0 * 2 ** ((x - 69) / 12.0)
  if name == "freq2midi": return 12 * (math.log(x, 2) - math.log(440.0, 2)) + 69
  if name == "str2midi": return {"C4": 60, "A#3": 58, "Bb2": 46}[x]
  if name == "str2freq": return 440.0 * 2 ** (({"C4": 60, "A#3": 58, "Bb2": 46}[x] - 69) / 12.0)
  if name == "midi2str": return {60: "C4", 61: "C#4", 69: "A4"}[x]
  if name == "freq2str": return None
  return None


def gen_funcs(run):
  for name in run.rot(sorted(function_table())):
    for cont in CONTAINERS:
      for route in ("positional", "keyword"):
        yield (name, cont, route)


def close(a, b):
  if isinstance(a, (tuple, list)) and isinstance(b, (tuple, list)):
    return len(a) == len(b) and all(close(x, y) for x, y in zip(a, b))
  if isinstance(a, str) or isinstance(b, str):
    return a == b
  if isinstance(a, (int, float, complex)) and isinstance(b, (int, float, complex)):
    return a == b or abs(a - b) <= 1e-12 * (1 + abs(b))
  return a == b


WIDE = ([10.0 ** k for k in range(-5, 18)] + [2.0 ** k for k in range(-4, 62, 3)] + [10 ** k for k in range(0, 16, 3)]
        + [3, 7, 0.1, 0.3, 2.5, 1e-3, 8])


def same_value(a, b):
  if type(a) is not type(b):
    return False
  if isinstance(a, float) and a != a:
    return b != b
  if isinstance(a, complex) and (a != a):
    return repr(a) == repr(b)
  return a == b


def run_func(case):
  name, cont, route = case
  f = function_table()[name]
  xs = DOMAIN.get(name, DEFAULT_DOMAIN)
  import inspect
  try:
    pname = list(inspect.signature(f).parameters)[0]
  except (TypeError, ValueError):
    pname = None
  inner = getattr(f, "__wrapped__", f)
  if route == "keyword" and (pname is None or not isinstance(inner, types.FunctionType)):
    return R(None, False, "keyword-route-not-offered-by-builtin")
  def call(arg):
    if route == "keyword":
      return f(**{pname: arg})
    return f(arg)
  scal = []
  for x in xs:
    try:
      v = call(x)
    except Exception as exc:
      return bad("func:scalar-exception", "broadcast function raised on a scalar of its domain",
                 {"f": name, "x": x}, str(exc)[:160])
    if isinstance(v, (list, Stream)) or isinstance(v, types.GeneratorType):
      return bad("func:scalar", "scalar in must give scalar out", "scalar", type(v).__name__)
    p = plain_value(name, x)
    if p is not None and not close(v, p):
      return bad("func:value", "scalar value differs from the plain math / closed-form value",
                 {"f": name, "x": x, "value": p}, v)
    scal.append(v)
  if cont == "scalar":
    return R(None, False, name)
  src = None
  if cont == "list": arg = list(xs)
  elif cont == "tuple": arg = tuple(xs)
  elif cont == "deque": arg = deque(xs)
  elif cont == "set": arg = set(xs)
  elif cont == "tuple-subclass": arg = Frame(xs)
  elif cont == "list-subclass": arg = Samples(xs)
  elif cont == "deque-subclass": arg = Ring(xs)
  elif cont == "frozenset": arg = frozenset(xs)
  elif cont == "stream": arg = Stream(list(xs))
  elif cont == "generator":
    src = CountingSource(xs)
    arg = (x for x in src)
  elif cont == "range":
    if not all(isinstance(x, int) for x in xs) and name not in ("sign", "absolute", "exp", "dB10", "sqrt", "midi2freq"):
      return R(None, False, "range-not-in-domain")
    arg = range(1, 4)
    scal = [call(x) for x in range(1, 4)]
  elif cont == "map":
    src = CountingSource(xs)
    arg = map(lambda x: x, src)
  elif cont == "filter":
    src = CountingSource(xs)
    arg = filter(lambda x: True, src)
  elif cont in ("zip", "enumerate"):
    # elements are tuples: only the laziness / kind of the result is the property's business
    src = CountingSource(xs)
    arg = zip(src) if cont == "zip" else enumerate(src)
    out = call(arg)
    if not isinstance(out, types.GeneratorType):
      return bad("func:lazy-kind", "a lazy input must give a generator (stay lazy)", "generator", type(out).__name__)
    if src.attempts:
      return bad("func:lazy-read", "a lazy input must not be read before the output is consumed", 0, src.attempts)
    return R(None, True, (cont, route))
  try:
    out = call(arg)
  except Exception as exc:
    return bad("func:container-exception", "broadcast function raised on a container",
               {"f": name, "container": cont}, str(exc)[:160])
  lazy = cont in ("generator", "range", "map", "filter")
  if lazy:
    if not isinstance(out, types.GeneratorType):
      return bad("func:lazy-kind", "a lazy input must give a generator (stay lazy)", "generator", type(out).__name__)
    if src is not None and src.attempts:
      return bad("func:lazy-read", "a lazy input must not be read before the output is consumed",
                 0, src.attempts)
    got = []
    for i, v in enumerate(out):
      got.append(v)
      if src is not None and src.pulls != i + 1:
        return bad("func:lazy-read", "a lazy input must be read one item per output",
                   i + 1, src.pulls)
  elif cont == "stream":
    if not isinstance(out, Stream):
      return bad("func:container-kind", "Stream in must give Stream out", "Stream", type(out).__name__)
    got = list(out)
  else:
    if type(out) is not type(arg):
      return bad("func:container-kind", "a broadcasting function must return the kind of container it was given",
                 type(arg).__name__, type(out).__name__)
    got = list(out)
  if cont in ("set", "frozenset"):
    ok = len(got) == len(set(map(repr, scal))) and all(any(close(g, s) for s in scal) for g in got)
  else:
    ok = len(got) == len(scal) and all(close(g, s) for g, s in zip(got, scal))
  if not ok:
    return bad("func:elementwise", "container result is not the function applied to each element",
               {"f": name, "container": cont, "values": scal}, got)
  # the element of the result IS the function of the element: the very same value the scalar call gives,
  # not one computed another way (over a wider menu of arguments: powers of ten and of two, where
  # alternative formulas round differently)
  if cont in ("list", "tuple", "stream", "generator", "deque"):
    mk1 = {"list": lambda v: [v], "tuple": lambda v: (v,), "deque": lambda v: deque([v]),
           "stream": lambda v: Stream([v]), "generator": lambda v: (e for e in [v])}[cont]
    for x in WIDE:
      if isinstance(xs[0], str) or (name == "factorial" and x > 200):
        break
      try:
        sv = call(x)
      except Exception:
        continue
      try:
        cv = list(call(mk1(x)))
      except Exception as exc:
        return bad("func:elementwise-exact", "a container of one element of the domain raised",
                   {"f": name, "container": cont, "x": repr(x)}, str(exc)[:160])
      if len(cv) != 1 or not same_value(cv[0], sv):
        return bad("func:elementwise-exact", "the element of the result is not the value the function gives for that element",
                   {"f": name, "container": cont, "x": repr(x), "scalar-call": repr(sv)}, [repr(v) for v in cv])
  # a Stream given to a broadcasting function stays the caller's Stream: the result is another object,
  # and the input still holds its own elements (it is legitimately used elsewhere, e.g. a ControlStream)
  if cont == "stream" and not isinstance(xs[0], str):
    from audiolazy import ControlStream
    for mk_s, label in ((lambda: Stream(list(xs)), "Stream"), (lambda: ControlStream(xs[0]), "ControlStream")):
      s_in = mk_s()
      out = call(s_in)
      if out is s_in:
        return bad("func:input-stream-changed", "the result of a broadcasting function is the input %s itself" % label,
                   "a new Stream", "the same object")
      first = s_in.take(1)
      if not same_value(first[0], xs[0]):
        return bad("func:input-stream-changed", "after f(s), the input %s s no longer yields its own elements" % label,
                   repr(xs[0]), repr(first[0]))
      if label == "ControlStream":
        nxt = out.take(1)
        if not same_value(nxt[0], scal[0]):
          return bad("func:input-stream-changed", "f(ControlStream) after the control was read elsewhere",
                     repr(scal[0]), repr(nxt[0]))
  # an element outside the function's domain: the broadcast is the function applied to that element,
  # so it raises what the function raises on the scalar (at once for eager containers, when the
  # element is produced for lazy ones) - it neither swallows nor replaces the error
  if cont in ("list", "tuple", "deque", "stream", "generator", "map") and cont != "range":
    badx, etype = None, None
    for cand in (-1, 0, 2, -2.5, float("inf"), "Gx", 10 ** 400, None, 1e400, -1.5):
      try:
        call(cand)
      except Exception as exc:
        badx, etype = cand, type(exc)
        break
    if badx is not None and not isinstance(xs[0], str) == isinstance(badx, str) and name in ("str2midi", "str2freq"):
      badx = None
    if badx is not None:
      seq = [xs[0], badx, xs[1 % len(xs)]]
      mk = {"list": list, "tuple": tuple, "deque": deque, "stream": lambda v: Stream(list(v)),
            "generator": lambda v: (e for e in list(v)), "map": lambda v: map(lambda e: e, list(v))}[cont]
      first, raised = [], None
      try:
        out = call(mk(seq))
        for v in out:
          first.append(v)
          if len(first) > 3:
            break
      except Exception as exc:
        raised = type(exc)
      lazy_kind = cont in ("stream", "generator", "map")
      if raised is not etype or (lazy_kind and not (len(first) == 1 and close(first[0], scal[0]))):
        return bad("func:element-error", "an element outside the domain must raise what the function raises on that "
                   "scalar (after the elements before it, for lazy containers)",
                   {"f": name, "container": cont, "element": repr(badx), "raises": etype.__name__,
                    "before": [scal[0]] if lazy_kind else []},
                   {"raised": getattr(raised, "__name__", None), "items": [repr(v) for v in first]})
  return R(None, True, (cont, route))


def run_enumerate(name, f, call, xs):
  out = call(enumerate([-2.5, 0, 3]))
  if not isinstance(out, types.GeneratorType):
    return bad("func:lazy-kind", "enumerate input must give a generator", "generator", type(out).__name__)
  got = list(out)
  exp = [(call(i), call(x)) for i, x in enumerate([-2.5, 0, 3])]
  if not close([tuple(g) for g in got], exp):
    return bad("func:elementwise", "enumerate elements are pairs, mapped element by element", exp, got)
  return R(None, True, ("enumerate",))


# --------------------------------------------- secondary parameters / decorator
def gen_secondary(run):
  for cont in ("list", "tuple", "deque", "stream", "generator", "scalar"):
    for what in ("log-base-kw", "log-base-pos", "midi2str-flat-kw", "midi2str-flat-pos",
                 "deco-pos1-positional", "deco-pos1-keyword", "deco-name-only", "deco-extra-kw"):
      yield (cont, what)


def run_secondary(case):
  cont, what = case
  def wrap(vals):
    if cont == "list": return list(vals)
    if cont == "tuple": return tuple(vals)
    if cont == "deque": return deque(vals)
    if cont == "stream": return Stream(list(vals))
    if cont == "generator": return (v for v in vals)
    return vals[0]
  def unwrap(out, n):
    if cont == "scalar": return [out]
    return list(out)
  if what.startswith("log"):
    vals = [1.0, 2.0, 8.0]
    out = lazy_math.log(wrap(vals), base=2) if what.endswith("kw") else lazy_math.log(wrap(vals), 2)
    exp = [math.log(v, 2) for v in vals]
  elif what.startswith("midi2str"):
    vals = [61, 63, 70]
    out = lazy_midi.midi2str(wrap(vals), sharp=False) if what.endswith("kw") else lazy_midi.midi2str(wrap(vals), False)
    exp = ["Db4", "Eb4", "Bb4"]
  else:
    calls = []
    if what == "deco-name-only":
      @elementwise("x")
      def g(a, x=0, k=10):
        calls.append((a, x, k)); return (a, x, k)
      vals = [1, 2, 3]
      out = g(7, x=wrap(vals), k=5)
      exp = [(7, v, 5) for v in vals]
    else:
      @elementwise("x", 1)
      def g(a, x, k=10):
        calls.append((a, x, k)); return (a, x, k)
      vals = [1, 2, 3]
      if what == "deco-pos1-positional":
        out = g(7, wrap(vals)); exp = [(7, v, 10) for v in vals]
      elif what == "deco-pos1-keyword":
        out = g(7, x=wrap(vals)); exp = [(7, v, 10) for v in vals]
      else:
        out = g(7, wrap(vals), k=5); exp = [(7, v, 5) for v in vals]
  got = unwrap(out, len(exp))
  if cont == "scalar":
    exp = exp[:1]
  if not close([g for g in got], exp):
    return bad("func:secondary", "secondary parameters must be passed unchanged to every element call",
               {"what": what, "container": cont, "values": exp}, got)
  return R(None, True, what)


def gen_table(run):
  yield ("table",)


def run_table(case):
  ops = list(OpMethod.get("all"))
  names = sorted(o.dname for o in ops)
  missing = [o.dname for o in ops if not callable(getattr(Stream, o.dname, None))]
  if missing:
    return bad("op:missing", "operator methods not installed on Stream", [], missing)
  import sys
  if len(ops) != 35:
    return bad("op:table-size", "the operator table must hold 35 methods on Python >= 3.5", 35, len(ops))
  for o in ops:
    want_rev = o.name.startswith("r") and o.name not in ("rshift",)
    if o.rev != want_rev or o.arity != (1 if o.name in ("pos", "neg", "invert") else 2):
      return bad("op:table-entry", "wrong reversed flag / arity in the operator table", o.name, [o.rev, o.arity])
  return R(None, True, "table")


# ---------------------------------------------------------------- long operands
def gen_ops_long(run):
  for op in OpMethod.get("all"):
    if op.symbol == "@":
      continue
    for ok in (("none",) if op.arity == 1 else ("stream", "list", "generator", "scalar")):
      for n, m in ((300, 300), (257, 64), (65, 1000)):
        yield (op.dname, ok, n, m)


def run_op_long(case):
  """Hundreds of elements (and unequal long lengths): one output per position up to the shorter operand."""
  dname, ok, n, m = case
  op = next(OpMethod.get(dname))
  mine, theirs = VALUES["int"]
  left = [mine[i % len(mine)] + (i % 7) for i in range(n)]
  if op.arity == 1:
    res = getattr(Stream(list(left)), dname)()
    exp = [try_elem(UNARY[op.symbol], a) for a in left]
  else:
    right_vals = [theirs[i % len(theirs)] + (i % 5) for i in range(m)]
    if ok == "scalar":
      other, right = theirs[1], [theirs[1]] * n
    else:
      right = right_vals
      other = {"stream": lambda: Stream(list(right)), "list": lambda: list(right),
               "generator": lambda: (v for v in list(right))}[ok]()
    f = SYMBOL[op.symbol]
    res = getattr(Stream(list(left)), dname)(other)
    L = min(len(left), len(right))
    exp = [try_elem(f, right[i], left[i]) if op.rev else try_elem(f, left[i], right[i]) for i in range(L)]
  exp_items, exp_exc = [], None
  for tag, v in exp:
    if tag == "e":
      exp_exc = v
      break
    exp_items.append(v)
  got, exc = consume(res, len(exp_items) + 3)
  if exc == "limit" or len(got) != len(exp_items):
    return bad("op:length-long", "result must end with the shortest iterable operand (long operands)",
               len(exp_items), len(got) if exc != "limit" else "longer", True)
  k = next((i for i, (g, e) in enumerate(zip(got, exp_items)) if not same_val(g, e)), None)
  if k is not None:
    return bad("op:value-long", "i-th output is not the operator applied to the i-th elements (long operands)",
               {"op": dname, "i": k, "value": repr(exp_items[k])}, repr(got[k]), True)
  if exc != exp_exc:
    return bad("op:exception", "an element-level error must surface as the same exception type",
               {"after": len(exp_items), "exception": exp_exc}, {"after": len(got), "exception": exc}, True)
  return R(None, True, (op.symbol, ok))


# --------------------------- operators applied to results that were changed by a Stream method
OPS1 = OrderedDict([("*2", lambda s: s * 2), ("2*", lambda s: 2 * s), ("neg", lambda s: -s), ("1-", lambda s: 1 - s),
                    ("+list", lambda s: s + [10, 20, 30, 40, 50, 60, 70, 80]), ("abs", lambda s: abs(s)), ("none", lambda s: s)])
METHODS = OrderedDict([
  ("append", (lambda s: s.append([100, 200]), lambda m: m + [100, 200])),
  ("append-stream", (lambda s: s.append(Stream([7]), [8]), lambda m: m + [7, 8])),
  ("limit", (lambda s: s.limit(3), lambda m: m[:3])),
  ("skip", (lambda s: s.skip(2), lambda m: m[2:])),
  ("map", (lambda s: s.map(lambda v: v + 1000), lambda m: [v + 1000 for v in m])),
  ("filter", (lambda s: s.filter(lambda v: v % 2 == 0), lambda m: [v for v in m if v % 2 == 0])),
  ("take1", (lambda s: (s.take(1), s)[1], lambda m: m[1:])),
  ("peek2", (lambda s: (s.peek(2), s)[1], lambda m: m)),
  ("copy", (lambda s: s.copy(), lambda m: m)),
  ("copy-keep-original", (lambda s: (s.copy(), s)[1], lambda m: m)),
  ("none", (lambda s: s, lambda m: m)),
])


def gen_op_method(run):
  for o1 in OPS1:
    for m1 in METHODS:
      for o2 in OPS1:
        for m2 in ("none", "append", "limit", "copy"):
          for o3 in ("none", "*2", "1-"):
            yield (o1, m1, o2, m2, o3)


def run_op_method(case):
  """op(method(op(stream))): an operator result is an ordinary Stream - whatever a method did to it
  (append, limit, skip, map, ...) is seen by the next operator."""
  base = [3, -1, 4, 1, -5, 9]
  model, real = list(base), Stream(list(base))
  trace = []
  try:
    for name in case:
      if name in OPS1 and name not in ("none",) and (len(trace) % 2 == 0):
        f = OPS1[name]
        real = f(real)
        model = list(f(Stream(list(model))))           # one operator on a fresh Stream: decided by the ops kind
      elif name in METHODS and len(trace) % 2 == 1:
        fr_, fm = METHODS[name]
        real = fr_(real)
        model = fm(model)
      trace.append(name)
    got = list(real)
  except Exception as exc:
    return bad("op-method:exception:" + type(exc).__name__, "expression raised", {"steps": list(case)}, str(exc)[:200], True)
  if got != model or any(type(a) is not type(b) for a, b in zip(got, model)):
    return bad("op-method:value", "an operator applied to a Stream that a method changed must see the changed Stream",
               {"steps": list(case), "items": model}, got, True)
  return R(None, True, (case[1], case[3]))


# ------------------------------- periodic operands that were partly consumed before the operator
PERIODS = [(3, -1, 4), (10, 20), (7,), (1, 2, 3, 4)]
BIN = OrderedDict([("+", operator.add), ("-", operator.sub), ("*", operator.mul), ("<", operator.lt),
                   ("r-", lambda a, b: b - a), ("//", operator.floordiv)])


def gen_periodic(run):
  for ia in range(len(PERIODS)):
    for ib in range(len(PERIODS)):
      for ka in (0, 1, 2, 5):
        for kb in (0, 1, 3):
          for op in BIN:
            yield (ia, ka, ib, kb, op)


def run_periodic(case):
  """Stream(a, b, c) is endless and periodic; after k items were taken from it, it goes on from item k -
  also as the operand of an operator, whatever the other operand's period and position."""
  ia, ka, ib, kb, op = case
  pa, pb = PERIODS[ia], PERIODS[ib]
  a, b = Stream(*pa), Stream(*pb)
  if ka: a.take(ka)
  for _ in range(kb):
    next(iter(b))
  f = BIN[op]
  try:
    got = f(a, b).take(13)
  except Exception as exc:
    return bad("periodic:exception:" + type(exc).__name__, "operator on partly consumed periodic Streams raised", None, str(exc)[:200], True)
  exp = []
  for n in range(13):
    try:
      exp.append(f(pa[(ka + n) % len(pa)], pb[(kb + n) % len(pb)]))
    except ZeroDivisionError:
      break
  if got[:len(exp)] != exp or (len(exp) == 13 and len(got) != 13):
    return bad("periodic:value", "an operator on periodic Streams that were partly consumed must go on from where each one is",
               {"taken": [ka, kb], "items": exp}, got, True)
  return R(None, ka + kb > 0, (op, ka > 0, kb > 0))



# --------------------------- elements that are mutable containers (lists, sets, dicts, deques)
MUT = OrderedDict([
  ("list+", (lambda: [[0], [5, 6], []], lambda: [[1], [2], [3, 4]], operator.add)),
  ("list*", (lambda: [[0], [5, 6], []], lambda: [2, 0, 3], operator.mul)),
  ("set|", (lambda: [{1}, {2, 3}, set()], lambda: [{7}, {3}, {8, 9}], operator.or_)),
  ("set&", (lambda: [{1, 7}, {2, 3}, set()], lambda: [{7}, {3}, {8, 9}], operator.and_)),
  ("set-", (lambda: [{1, 7}, {2, 3}, set()], lambda: [{7}, {3}, {8, 9}], operator.sub)),
  ("set^", (lambda: [{1, 7}, {2, 3}, set()], lambda: [{7}, {3}, {8, 9}], operator.xor)),
  ("dict|", (lambda: [{1: 2}, {}, {3: 4}], lambda: [{5: 6}, {7: 8}, {3: 9}], operator.or_)),
])


def gen_mutable(run):
  for name in MUT:
    for left in ("list", "repeat-one-object", "hub-two-expressions", "tuple"):
      for other in ("list", "stream", "scalar"):
        if other == "scalar" and name != "list*":
          continue                       # a list / set / dict operand is iterated, not repeated: only the int is a scalar
        yield (name, left, other)


def run_mutable(case):
  """Elements that implement the operator and are mutable: the i-th output is op(a_i, b_i) - a new value -
  and the operand elements are what they were (an element may be seen again: a repeated object, a hub
  feeding two expressions, the caller's own list)."""
  import copy
  name, left, other = case
  mka, mkb, f = MUT[name]
  a, b = mka(), mkb()
  if left == "repeat-one-object":
    a = [a[0]] * 3                       # one object three times
  keep_a, keep_b = copy.deepcopy(a), copy.deepcopy(b)
  if other == "scalar" and name == "list*":
    b = 2
    keep_b = 2
    exp = [f(copy.deepcopy(x), 2) for x in keep_a]
  elif other == "scalar":
    b = b[0]
    keep_b = copy.deepcopy(b)
    exp = [f(copy.deepcopy(x), copy.deepcopy(keep_b)) for x in keep_a]
  else:
    exp = [f(copy.deepcopy(x), copy.deepcopy(y)) for x, y in zip(keep_a, keep_b)]
  try:
    if left == "hub-two-expressions":
      from audiolazy import thub
      hub = thub(Stream(a), 2)
      rb = Stream(b) if other == "stream" else b
      first = list(f(hub, rb))
      second = list(f(hub, copy.deepcopy(keep_b) if other != "stream" else Stream(copy.deepcopy(keep_b))))
      if second != exp:
        return bad("mutable:second-expression", "two expressions fed by one hub: the second one must see the elements "
                   "as they are, not as the first expression left them", [repr(v) for v in exp], [repr(v) for v in second], True)
      got = first
    else:
      sa = Stream(tuple(a) if left == "tuple" else a)
      rb = Stream(b) if other == "stream" else b
      got = list(f(sa, rb))
  except Exception as exc:
    return bad("mutable:exception:" + type(exc).__name__, "operator on mutable elements raised", None, str(exc)[:200], True)
  if got != exp:
    return bad("mutable:value", "the i-th output must be the operator applied to the i-th elements",
               [repr(v) for v in exp], [repr(v) for v in got], True)
  if a != keep_a or (other != "stream" and b != keep_b):
    return bad("mutable:operand-changed", "the operator changed the elements of its operand",
               repr(keep_a), repr(a), True)
  if any(g is x for g in got for x in a):
    return bad("mutable:aliased", "an output element is the operand's own element object", "new objects", "same object", True)
  return R(None, True, (name, left, other))


# --------------------------------- scalars that can be indexed (but are not iterable)
class Word(int):
  """An int that also answers word[i] (a bit); it has no __iter__ and is a scalar for every purpose."""
  def __getitem__(self, i):
    if i > 8:
      raise IndexError(i)
    return (int(self) >> i) & 1


def gen_indexable(run):
  for op in OpMethod.get("all"):
    if op.arity == 2 and op.symbol not in ("@",):
      for kind in ("word", "poly", "table"):
        yield (op.dname, kind)


def run_indexable(case):
  """A non-iterable operand is repeated for every position - also when it happens to define __getitem__
  (an int subclass, AudioLazy's own Poly and TableLookup objects)."""
  from audiolazy import Poly, TableLookup
  dname, kind = case
  op = next(OpMethod.get(dname))
  f = SYMBOL[op.symbol]
  left = [5, 2, 9, 4]
  other = {"word": lambda: Word(6), "poly": lambda: Poly([3, 1, 2]), "table": lambda: TableLookup([1., 2., 4., 8.])}[kind]()
  def ref(v):
    return f(other, v) if op.rev else f(v, other)
  exp = []
  for v in left:
    t = try_elem(ref, v)
    if t[0] == "e":
      exp.append(("e", t[1])); break
    exp.append(("v", t[1]))
  try:
    res = getattr(Stream(list(left)), dname)(other)
    got, exc = consume(res, len(left) + 3)
  except Exception as e_:
    got, exc = [], type(e_).__name__
  want_items = [v for tag, v in exp if tag == "v"]
  want_exc = next((v for tag, v in exp if tag == "e"), None)
  def same(a, b):
    try:
      return type(a) is type(b) and (a == b) is True
    except Exception:
      return type(a) is type(b)
  if len(got) != len(want_items) or any(not same(g, w) for g, w in zip(got, want_items)) or (want_exc or None) != (exc if exc not in (None, "end") else None):
    return bad("op:indexable-scalar", "a scalar operand that defines __getitem__ (but not __iter__) must be repeated for "
               "every position, like any other non-iterable", {"op": dname, "operand": kind, "items": [repr(w)[:40] for w in want_items], "then": want_exc},
               {"items": [repr(g)[:40] for g in got], "then": exc}, True)
  return R(None, True, (op.symbol, kind))


KINDS = OrderedDict([
  ("table", Kind(gen_table, run_table, rule="operator table: 35 methods, all installed on Stream")),
  ("ops", Kind(gen_ops, run_op, chunk=500, rule="operator x route x other kind x lengths x element type")),
  ("scalar-types", Kind(gen_scalar_types, run_scalar_types, chunk=60,
                        rule="operator x family of ==-equal scalars of different types applied in sequence x element type")),
  ("trees", Kind(gen_trees, run_tree, chunk=500, rule="expression trees; non-trivial: nested")),
  ("functions", Kind(gen_funcs, run_func, chunk=20, rule="broadcast function x container kind x route")),
  ("secondary", Kind(gen_secondary, run_secondary, chunk=8, rule="secondary parameters and the elementwise decorator itself")),
  ("ops-long", Kind(gen_ops_long, run_op_long, chunk=20, rule="every operator x other kind on operands of 300 / 257 vs 64 / 65 vs 1000 elements")),
  ("op-method", Kind(gen_op_method, run_op_method, chunk=200, rule="operator, Stream method, operator, method, operator: all combinations of the menus")),
  ("periodic-consumed", Kind(gen_periodic, run_periodic, chunk=200, rule="pairs of periodic Streams x items already taken from each x operator")),
  ("mutable-elements", Kind(gen_mutable, run_mutable, chunk=10, rule="operators on elements that are lists / sets / dicts x left operand kind (list, one object repeated, hub feeding two expressions) x other operand kind")),
  ("indexable-scalars", Kind(gen_indexable, run_indexable, chunk=20, rule="binary operators x a scalar operand with __getitem__ (int subclass, Poly, TableLookup)")),
])
