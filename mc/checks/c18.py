"""
C18 - PCM byte codecs are exact: chunk packing and WAV sample decoding.

E1: WAV files holding every 8-bit sample value, every 16-bit value (thorough;
quick: all byte patterns over a boundary alphabet), and for 24/32 bit every
sample whose bytes come from {00,01,7f,80,fe,ff} plus +-2^k, +-2^k+-1, are
written with the standard ``wave`` module and read back through the real
WavStream (mono/stereo, keep on/off, by name and by file object); the oracle is
``int.from_bytes`` arithmetic, independent of ``struct``.  ``chunks`` is
enumerated over lengths x sizes x formats x byte orders x both strategies and
checked by unpacking the concatenated output.
"""
from collections import OrderedDict
import itertools, struct, wave, io, os, tempfile, shutil, atexit, sys
from ..runner import Kind, R, bad

from audiolazy import WavStream, chunks, Stream

PROPERTY = "C18"
LEVEL = "exploration"
RULE = ("WAV: all (width, channels, keep, route, rate) x sample sets covering every 8-bit value, "
        "the 16-bit alphabet (thorough: all 65536 values) and the byte-pattern alphabets for 24/32 "
        "bit, plus frame counts 0..5; chunks: all (strategy, length 0..7, size 1..4 or default, "
        "format, byte order, value set). Non-trivial: at least one sample with the sign bit set, "
        "or a chunk sequence that needs padding")
ASSUMPTIONS = [
  "files are produced by the stdlib wave module in a private temporary directory",
  "chunk values and pad values are type-appropriate for the format (ints for b/h/i, floats exact in binary32 for f)",
]

_tmp = {"dir": None}


def tmpdir():
  if _tmp["dir"] is None or _tmp.get("pid") != os.getpid():
    _tmp["dir"] = tempfile.mkdtemp(prefix="alz_c18_")
    _tmp["pid"] = os.getpid()
    atexit.register(shutil.rmtree, _tmp["dir"], True)
  return _tmp["dir"]


def bounds(run):
  return {"widths": [8, 16, 24, 32], "channels": [1, 2], "keep": [False, True],
          "routes": ["path", "fileobj"], "frames_small": "0..5",
          "sixteen_bit": "all 65536 values",
          "byte_alphabet_24_32": run.pick("{00,01,7f,80,fe,ff}", "{00,01,7f,80,fe,ff,55,aa,10}"),
          "chunks": {"length": "0..%d" % run.pick(9, 13), "size": "1..4, 6, default (5), 200, 300", "dfmt": "bhifd",
                     "byte_order": ["None", "<", ">", "=", "!"], "strategies": ["struct", "array"]}}


PAT = [0x00, 0x01, 0x7f, 0x80, 0xfe, 0xff]


def sample_sets(width, tier):
  """Lists of raw little-endian sample byte strings."""
  if width == 1:
    return [[bytes([v]) for v in range(256)]]
  alpha = PAT if tier == "quick" else PAT + [0x55, 0xaa, 0x10]
  pats = [bytes(p) for p in itertools.product(alpha, repeat=width)]
  bits = 8 * width
  extra = set()
  for k in range(bits - 1):
    for d in (-1, 0, 1):
      for sgn in (1, -1):
        v = sgn * (1 << k) + d
        if -(1 << (bits - 1)) <= v < (1 << (bits - 1)):
          extra.add(v)
  extra |= {-(1 << (bits - 1)), (1 << (bits - 1)) - 1, 0, -1}
  pats += [v.to_bytes(width, "little", signed=True) for v in sorted(extra)]
  sets = [pats[i:i + 256] for i in range(0, len(pats), 256)]
  if width == 2:
    allv = [v.to_bytes(2, "little") for v in range(65536)]
    sets += [allv[i:i + 4096] for i in range(0, 65536, 4096)]
  return sets


def gen_wav(run):
  idx = 0
  for width in run.rot([1, 2, 3, 4]):
    for si, _ in enumerate(sample_sets(width, run.tier)):
      for channels in (1, 2):
        for keep in (False, True):
          route = ["path", "fileobj"][idx % 2]
          rate = [8000, 44100, 1, 96000][idx % 4]
          idx += 1
          yield (width, si, None, channels, keep, route, rate, run.tier)
    # long files: many frames, so that any batched reading meets a batch boundary
    for channels in (1, 2):
      for keep in (False, True):
        for frames in (343, 1025, 2050):
          yield (width, -1, frames, channels, keep, "path" if frames % 2 else "fileobj", 8000, run.tier)
    for n in range(0, 6):
      for channels in (1, 2):
        for keep in (False, True):
          for route in ("path", "fileobj"):
            yield (width, 0, n, channels, keep, route, 22050, run.tier)


def open_fds_of(path):
  """Number of this process's descriptors that refer to path (Linux /proc)."""
  n = 0
  real = os.path.realpath(path)
  for fd in os.listdir("/proc/self/fd"):
    try:
      if os.readlink("/proc/self/fd/" + fd) == real:
        n += 1
    except OSError:
      pass
  return n


_close_calls = {}
_orig_close = wave.Wave_read.close


def _counting_close(self):
  _close_calls[id(self)] = _close_calls.get(id(self), 0) + 1
  return _orig_close(self)


wave.Wave_read.close = _counting_close


def run_wav(case):
  width, si, nframes, channels, keep, route, rate, tier = case
  if si == -1:
    base = sample_sets(width, tier)[0]
    samples = [base[(i * 7) % len(base)] for i in range(nframes * channels)]
    nframes = None
  else:
    samples = sample_sets(width, tier)[si]
  if nframes is not None:
    samples = samples[7:7 + nframes * channels]
  if len(samples) % channels:
    samples = samples[:-1]
  raw = b"".join(samples)
  bits = 8 * width
  if route == "path":
    target = os.path.join(tmpdir(), "w%d_%d_%d_%d_%s.wav" % (width, si, channels, int(keep), nframes))
  else:
    target = io.BytesIO()
  w = wave.open(target, "wb")
  w.setnchannels(channels); w.setsampwidth(width); w.setframerate(rate)
  w.writeframes(raw)
  w.close()
  if route == "fileobj":
    data_ = target.getvalue()
    if (len(samples) + width + channels) % 3 == 0:
      # the WAV does not start at offset 0 of the file object (another WAV file, of another format,
      # stored before it): the stream reads from where the object stands, as the wave module does
      pre = io.BytesIO()
      w0 = wave.open(pre, "wb")
      w0.setnchannels(3 - channels); w0.setsampwidth(1 + width % 4); w0.setframerate(rate + 17)
      w0.writeframes(bytes(range(24)) * (3 - channels))
      w0.close()
      prefix = pre.getvalue()
      target = io.BytesIO(prefix + data_)
      target.seek(len(prefix))
    else:
      target = io.BytesIO(data_)
  elif len(samples) >= 2 * channels:
    # the same path held other contents a moment ago (and was read): nothing may be remembered
    w = wave.open(target, "wb")
    w.setnchannels(channels); w.setsampwidth(width); w.setframerate(rate + 1)
    w.writeframes(raw[::-1][:len(raw) - width * channels])
    w.close()
    list(WavStream(target, keep=not keep))
    w = wave.open(target, "wb")
    w.setnchannels(channels); w.setsampwidth(width); w.setframerate(rate)
    w.writeframes(raw)
    w.close()
  try:
    ws = WavStream(target, keep=keep) if keep else (WavStream(target) if si % 2 else WavStream(target, keep=False))
    if not isinstance(ws, Stream):
      return bad("wav:type", "WavStream must be a Stream", "Stream", type(ws).__name__)
    hdr = (ws.rate, ws.channels, ws.bits)
    if hdr != (rate, channels, bits):
      return bad("wav:header", "rate/channels/bits must mirror the header", (rate, channels, bits), hdr)
    fobj = ws._file
    before = _close_calls.get(id(fobj), 0)
    got = []
    it = iter(ws)
    for v in it:
      got.append(v)
      if len(got) == 1 and _close_calls.get(id(fobj), 0) != before:
        return bad("wav:closed-early", "the file was closed before the stream was exhausted", 0, "closed")
    after = _close_calls.get(id(fobj), 0)
    # the header attributes stay what they are while and after the samples are read
    hdr2 = (ws.rate, ws.channels, ws.bits)
    if hdr2 != (rate, channels, bits) or any(type(v) is not int for v in hdr2):
      return bad("wav:header-after", "rate/channels/bits must still mirror the header once the stream is exhausted",
                 (rate, channels, bits), [repr(v)[:60] for v in hdr2])
    # a file given by name: the operating-system file itself must be closed while the exhausted
    # stream object is still alive (not merely the wave reader object)
    still_open = route == "path" and open_fds_of(target)
  except Exception as exc:
    return bad("wav:exception:" + type(exc).__name__, "WavStream raised", None, str(exc)[:200])
  finally:
    if route == "path" and os.path.exists(target):
      os.unlink(target)
  ints = [int.from_bytes(s, "little", signed=(width > 1)) for s in samples]
  if keep:
    exp = ints
  else:
    d = 1 << (bits - 1)
    exp = [((v - 128) if width == 1 else v) / d for v in ints]
  neg = any(s[-1] & 0x80 for s in samples)
  if len(got) != len(exp):
    return bad("wav:length", "number of samples differs from the file contents", len(exp), len(got), neg)
  for i, (g, e) in enumerate(zip(got, exp)):
    if g != e or type(g) is not type(e):
      return bad("wav:value", "decoded sample differs from the stored integer" + ("" if keep else " / 2**(bits-1)"),
                 {"index": i, "raw": samples[i], "value": e}, g, neg)
    if not keep and not (-1 <= g < 1):
      return bad("wav:range", "normalised sample outside [-1, 1)", "[-1,1)", g, neg)
  if still_open:
    return bad("wav:fd-open", "a file given by name must be closed (at the operating-system level) once the "
               "stream is exhausted", "no open descriptor", "%d open descriptor(s)" % still_open, neg)
  if after - before < 1:
    return bad("wav:not-closed", "the wave file must be closed once the stream is exhausted", "closed", "open", neg)
  return R(None, neg, (width, channels, keep))


# ------------------------------------------------------------------ chunks
FMT_VALUES = {
  "b": [-128, 127, 0, -1, 1, 64, -65],
  "h": [-32768, 32767, 0, -1, 255, 256, -257],
  "i": [-2 ** 31, 2 ** 31 - 1, 0, -1, 65536, -65537, 1],
  "f": [0.0, 1.0, -1.0, 0.5, -0.25, 3.0e38, 1.401298464324817e-45],
  "d": [0.0, 1.0, -1.0, 0.1, -1e300, 5e-324, 2.5],
}
ORDERS = [None, "<", ">", "=", "!"]


def gen_chunks(run):
  for strat in ("struct", "array"):
    for dfmt in run.rot(list("bhifd")):
      for order in ORDERS:
        for size in (1, 2, 3, 4, 6, None):
          for n in range(0, run.pick(10, 14)):
            for rot in (0, 3, 1):
              for src in ("list", "gen"):
                yield (strat, dfmt, order, size, n, rot, src)
            # the same samples in the other containers a signal comes in
            for src in ("stream", "stream-copy", "iter", "tuple", "deque"):
              yield (strat, dfmt, order, size, n, 0, src)
            # silence: zeros of both signs only (float formats), and all-zero integer data
            yield (strat, dfmt, order, size, n, "zeros", "list")
    # a big chunk: sizes beyond 127 must work for every format
    for dfmt in "bhifd":
      yield (strat, dfmt, None, 200, 3, 0, "list")
      yield (strat, dfmt, ">", 300, 301, 1, "gen")


def run_chunks(case):
  """One case = one (strategy, format, size, length, values) asked for EVERY byte order in
  sequence (starting from the case's order, forwards then backwards) in the same process, so
  that state kept between calls (caches keyed without the byte order) shows."""
  strat, dfmt, order0, size, n, rot, src = case
  k = ORDERS.index(order0)
  seq_orders = ORDERS[k:] + ORDERS[:k]
  seq_orders = seq_orders + seq_orders[::-1]
  res = None
  for order in seq_orders:
    r = one_chunks_call(strat, dfmt, order, size, n, rot, src)
    if r.viol is not None:
      return r
    res = r
  # the user may choose the default strategy (chunks.default = chunks.array, as the docstring
  # suggests): every strategy still gives the same bytes for every byte order
  if rot == 0 and src == "list":
    saved = vars(chunks).get("default", None)
    try:
      for dflt in ("array", "struct"):
        chunks.default = chunks[dflt]
        for order in (">", None, "<"):
          r = one_chunks_call(strat, dfmt, order, size, n, rot, src)
          if r.viol is not None:
            r.viol["what"] += " (with chunks.default = chunks.%s)" % dflt
            r.viol["key"] += ":user-default"
            return r
    finally:
      if saved is None:
        try: del chunks.default
        except Exception: pass
      else:
        chunks.default = saved
  return res


def make_source(src, seq):
  from collections import deque as _deque
  if src == "list": return list(seq)
  if src == "gen": return (v for v in seq)
  if src == "stream": return Stream(list(seq))
  if src == "stream-copy": return Stream(list(seq)).copy()
  if src == "iter": return iter(list(seq))
  if src == "tuple": return tuple(seq)
  if src == "deque": return _deque(seq)
  raise ValueError(src)


def one_chunks_call(strat, dfmt, order, size, n, rot, src):
  vals = FMT_VALUES[dfmt]
  if rot == "zeros":
    vals = [0.0, -0.0, -0.0, 0.0] if dfmt in "fd" else [0, 0, 0, 0]
    rot = 0
  seq = [vals[(i + rot) % len(vals)] for i in range(n)]
  pad = vals[(rot + 3) % len(vals)]
  if rot == 1:
    pad = 0.0 if dfmt in "fd" else 0       # a zero pad value (the default, for the float formats)
  eff = size
  saved = chunks.size
  try:
    if size is None:
      type(chunks).size = 5
      eff = 5
    kw = {"dfmt": dfmt, "padval": pad}
    if rot == 1 and (dfmt in "fd" or n % (size or 5) == 0):
      del kw["padval"]                       # documented default 0. (for the integer formats: only where no padding is needed)
    if size is not None: kw["size"] = size
    if order is not None: kw["byte_order"] = order
    data = make_source(src, seq)
    out = list(chunks[strat](data, **kw))
  except Exception as exc:
    return bad("chunks:%s:exception:%s" % (strat, type(exc).__name__), "chunks raised",
               None, str(exc)[:200], True)
  finally:
    type(chunks).size = saved
  needs_pad = bool(n % eff)
  nchunks = -(-n // eff)
  if len(out) != nchunks:
    return bad("chunks:%s:count" % strat, "number of chunks", nchunks, len(out), needs_pad)
  fmt = (order or "") + dfmt
  item = struct.calcsize((order or "") + dfmt)
  if any(not isinstance(c, bytes) or len(c) != item * eff for c in out):
    return bad("chunks:%s:chunk-size" % strat, "every chunk must be a byte string of size items",
               item * eff, [len(c) for c in out], needs_pad)
  flat = b"".join(out)
  got = list(struct.unpack((order or "") + "%d%s" % (nchunks * eff, dfmt), flat)) if flat else []
  exp_vals = seq + [pad] * (nchunks * eff - n)
  # expected numbers after a round trip through the same struct format
  exp = [struct.unpack(fmt, struct.pack(fmt, v))[0] for v in exp_vals]
  exp_bytes = struct.pack((order or "") + "%d%s" % (len(exp_vals), dfmt), *exp_vals) if exp_vals else b""
  if got == exp and flat != exp_bytes:
    return bad("chunks:%s:bytes" % strat, "the concatenated chunks are not the packed bytes of the sequence followed by "
               "pad values (byte order %r; equal as numbers, different as bytes: the sign of a zero)" % order,
               exp_bytes[:32].hex(), flat[:32].hex(), True)
  if got != exp:
    return bad("chunks:%s:value" % strat, "unpacking the concatenated chunks does not give the sequence "
               "followed by pad values (byte order %r, asked after other byte orders in the same process)" % order,
               exp[:8], got[:8], needs_pad)
  if strat == "struct":
    data = make_source(src, seq)
    if size is None:
      type(chunks).size = 5
    try:
      out2 = list(chunks.array(data, **kw))
    except Exception as exc:
      return bad("chunks:array:exception:" + type(exc).__name__, "chunks.array raised", None, str(exc)[:200], True)
    finally:
      type(chunks).size = saved
    if out2 != out:
      return bad("chunks:strategies-differ", "the struct and array strategies must give identical bytes",
                 [c.hex() for c in out[:2]], [c.hex() for c in out2[:2]], needs_pad)
  return R(None, needs_pad or order in (">", "!"), (dfmt, order, needs_pad))


# ------------------------------------------------------------ calling routes
from ..routes import routes_agree


def route_table():
  T = OrderedDict()
  c = lambda v: (lambda: v)
  for strat in ("struct", "array"):
    T["chunks." + strat] = (chunks[strat], [("seq", lambda: [1, -2, 300, -400, 5]), ("size", c(3)), ("dfmt", c("h")),
                                            ("byte_order", c(">")), ("padval", c(7))], lambda g: [bytes(b).hex() for b in g])
  def wav(*a, **k):
    path = os.path.join(tmpdir(), "routes.wav")
    w = wave.open(path, "wb")
    w.setnchannels(2); w.setsampwidth(2); w.setframerate(8000)
    w.writeframes(bytes(range(40)))
    w.close()
    k = dict(k)
    if "wave_file" in k: k["wave_file"] = path
    else: a = (path,) + tuple(a[1:])
    ws = WavStream(*a, **k)
    return [ws.rate, ws.channels, ws.bits] + list(ws)
  T["WavStream"] = (wav, [("wave_file", c("PATH")), ("keep", c(True))], lambda v: [repr(e) for e in v])
  return T


def gen_routes(run):
  for name in route_table():
    yield (name,)


def run_routes(case):
  f, spec, canon = route_table()[case[0]]
  return routes_agree(case[0], f, spec, canon)


# ----------------------------------------- several WavStreams alive at once
def gen_interleaved(run):
  for wa in (1, 2, 3, 4):
    for wb in (1, 2, 3, 4):
      for cha in (1, 2):
        for chb in (1, 2):
          for keep in (False, True):
            for order in ("alternate", "two-one", "a-then-b"):
              yield (wa, cha, wb, chb, keep, order)


def run_interleaved(case):
  """Two files decoded by two WavStream objects that are alive together and read alternately (mixing
  two files): each still yields exactly its own stored integers."""
  wa, cha, wb, chb, keep, order = case
  def build(width, channels, tag):
    base = sample_sets(width, "quick")[0]
    n = 6 * channels
    samples = [base[(i * 5 + tag * 3) % len(base)] for i in range(n)]
    path = os.path.join(tmpdir(), "il_%s_%d_%d_%d.wav" % (tag, width, channels, os.getpid()))
    w = wave.open(path, "wb")
    w.setnchannels(channels); w.setsampwidth(width); w.setframerate(8000)
    w.writeframes(b"".join(samples))
    w.close()
    ints = [int.from_bytes(s_, "little", signed=(width > 1)) for s_ in samples]
    if not keep:
      d = 1 << (8 * width - 1)
      ints = [((v - 128) if width == 1 else v) / d for v in ints]
    return path, ints
  pa, ea = build(wa, cha, 1)
  pb, eb = build(wb, chb, 2)
  try:
    sa, sb = WavStream(pa, keep=keep), WavStream(pb, keep=keep)
    ia, ib = iter(sa), iter(sb)
    ga, gb = [], []
    if order == "a-then-b":
      ga, gb = list(ia), list(ib)
    else:
      step_a = 2 if order == "two-one" else 1
      while len(ga) < len(ea) or len(gb) < len(eb):
        for _ in range(step_a):
          if len(ga) < len(ea): ga.append(next(ia))
        if len(gb) < len(eb): gb.append(next(ib))
      ga += list(ia); gb += list(ib)
  except Exception as exc:
    return bad("wav:interleaved:exception:" + type(exc).__name__, "reading two WavStreams alternately raised", None, str(exc)[:200], True)
  finally:
    for p_ in (pa, pb):
      if os.path.exists(p_):
        os.unlink(p_)
  if ga != ea or gb != eb:
    return bad("wav:interleaved", "two WavStreams alive together and read alternately must each yield their own samples",
               {"a": ea[:6], "b": eb[:6]}, {"a": ga[:6], "b": gb[:6]}, True)
  return R(None, True, (wa, wb, order))


def gen_types(run):
  from ..routes import struct_params
  try:
    T = route_table()
  except Exception:
    T = {}
  for name, ent in T.items():
    if struct_params(ent[1]):
      yield (name,)


def run_types(case):
  from ..routes import struct_params, types_agree
  ent = route_table()[case[0]]
  return types_agree(case[0], ent[0], ent[1], ent[2], struct_params(ent[1]))


KINDS = OrderedDict([
  ("wav", Kind(gen_wav, run_wav, chunk=4, rule="WAV files x reading configurations; non-trivial: a sample with the sign bit set")),
  ("chunks", Kind(gen_chunks, run_chunks, chunk=200, rule="chunks configurations; non-trivial: padding needed or non-native byte order")),
  ("call-routes", Kind(gen_routes, run_routes, chunk=1,
                       rule="each function with every documented parameter set: all positional / all keyword / every split must agree")),
  ("interleaved", Kind(gen_interleaved, run_interleaved, chunk=8, rule="pairs of (width, channels) files x keep x reading order; two streams alive together")),
  ("param-types", Kind(gen_types, run_types, chunk=1,
                       rule="structural integer parameters given as integral float / Fraction / bool: same result wherever the type is accepted")),
])
