"""
Common driver of every check:  ./check <ID> [--tier quick|thorough] [--replay F]

A check module (mc/checks/cNN.py) declares

  PROPERTY   "C08"
  LEVEL      "exploration" | "model_checking"
  KINDS      ordered {name: Kind(gen, run, ...)}  (bounded-exhaustive kinds)
  main(run)  optional custom driver (history / schedule explorers) that is
             called after the KINDS have been enumerated

Every unit of work is a JSON-able *case* of some kind; ``kind.run(case)``
executes it on the real code and on the reference model and returns an ``R``.
That makes every violation a replayable artefact (kind + case) by
construction, with no explorer involved in the replay.
"""
from __future__ import print_function
import sys, os, json, time, hashlib, argparse, importlib, itertools, signal
import traceback, resource, subprocess, collections, tempfile
import multiprocessing as mp

VERIF = os.path.dirname(os.path.dirname(os.path.abspath(__file__)))
REPO = os.path.abspath(os.environ.get("VERIF_REPO", "/repo"))
# evidence and replay artefacts of a run against anything but /repo itself (a scratch worktree
# with a seeded change applied) never land in /verif: the committed evidence describes /repo only
OUT = os.environ.get("VERIF_OUT") or (
    VERIF if REPO == "/repo" else os.path.join(tempfile.gettempdir(), "verif-scratch-out"))
NPROC = int(os.environ.get("VERIF_WORKERS", "0")) or min(16, os.cpu_count() or 1)


def bind_repo():
  """Import audiolazy from the tree under test and prove where it came from."""
  if sys.path[0] != REPO:
    sys.path.insert(0, REPO)
  import warnings
  warnings.simplefilter("ignore")
  import audiolazy
  src = os.path.abspath(audiolazy.__file__)
  if not src.startswith(REPO + os.sep):
    print("HARNESS-ERROR audiolazy imported from %s, expected under %s"
          % (src, REPO))
    sys.exit(3)
  return audiolazy


# --------------------------------------------------------------------------
class R(object):
  """Result of one case.  viol: None or dict(key, what, expected, observed)."""
  __slots__ = ("viol", "nontrivial", "outcome", "n", "extra", "succ")
  def __init__(self, viol=None, nontrivial=True, outcome=None, n=1, extra=None,
               succ=None):
    self.viol, self.nontrivial, self.outcome, self.n = viol, nontrivial, outcome, n
    self.extra = extra      # Counter-like: named counters summed into evidence
    self.succ = succ        # explorers: {canonical successor state: history}


def bad(key, what, expected=None, observed=None, nontrivial=True, outcome=None):
  from .exact import to_json
  return R({"key": key, "what": what, "expected": to_json(expected),
            "observed": to_json(observed)}, nontrivial, outcome)


class Kind(object):
  def __init__(self, gen, run, rule="", expand=None, timeout=60.0, chunk=200,
               doc=""):
    self.gen, self.run, self.rule, self.expand = gen, run, rule, expand
    self.timeout, self.chunk, self.doc = timeout, chunk, doc
    self.name = None


class CaseTimeout(BaseException):
  pass


def _alarm(signum, frame):
  raise CaseTimeout()


def digest(case):
  h = hashlib.blake2b(repr(case).encode(), digest_size=8).digest()
  return int.from_bytes(h, "little")


_MODULE = None


def _init_worker(modname):
  global _MODULE
  _MODULE = importlib.import_module(modname)
  signal.signal(signal.SIGALRM, _alarm)
  limit_memory()


def limit_memory():
  try:
    # 16 workers x 3 GiB stay below the machine's memory, so that a case that allocates without
    # end meets MemoryError (reported as a violation of that case) before the kernel kills a worker
    lim = int(float(os.environ.get("VERIF_WORKER_GB", "3")) * (1 << 30))
    resource.setrlimit(resource.RLIMIT_AS, (lim, lim))
  except Exception:
    pass


def run_one(kind, case):
  """Run one case under the per-case alarm; exceptions become violations."""
  signal.setitimer(signal.ITIMER_REAL, kind.timeout)
  try:
    r = kind.run(case)
    signal.setitimer(signal.ITIMER_REAL, 0)
    if r is None:
      r = R()
    return r
  except CaseTimeout:
    return bad("timeout", "case did not return within %.0f s (eager or "
               "non-terminating behaviour)" % kind.timeout, None, "timeout")
  except MemoryError:
    signal.setitimer(signal.ITIMER_REAL, 0)
    return bad("memory", "case exhausted the address-space limit", None,
               "MemoryError")
  except Exception as exc:
    signal.setitimer(signal.ITIMER_REAL, 0)
    tb = traceback.format_exc().splitlines()[-6:]
    return bad("harness-exception:" + type(exc).__name__,
               "unexpected exception escaped the case runner", None,
               {"exc": type(exc).__name__, "msg": str(exc)[:300], "tb": tb})
  finally:
    signal.setitimer(signal.ITIMER_REAL, 0)


_HISTORY = {}


def _work(args):
  kname, cases = args
  kind = _MODULE.KINDS[kname]
  agg = {"n": 0, "nontrivial": set(), "outcomes": collections.Counter(),
         "viols": [], "first": None, "extra": collections.Counter(),
         "succ": {}}
  done = _HISTORY.setdefault(kname, [])     # the cases of this kind this worker process ran before (see "prelude" in Run.finish)
  for shard in cases:
    subs = kind.expand(shard) if kind.expand else (shard,)
    for case in subs:
      if agg["first"] is None:
        agg["first"] = case
      r = run_one(kind, case)
      if r.viol is not None and not agg["viols"] and len(done) <= 4000 and "replay_case" not in r.viol:
        r.viol["prelude"] = list(done)
      if len(done) <= 4000:
        done.append(case)
      agg["n"] += r.n
      if r.nontrivial:
        agg["nontrivial"].add(digest(case))
      if r.outcome is not None:
        agg["outcomes"][r.outcome] += 1
      if r.extra:
        merge_extra(agg["extra"], r.extra)
      if r.succ:
        for k, h in r.succ.items():
          agg["succ"].setdefault(k, h)
      if r.viol is not None and len(agg["viols"]) < 50:
        agg["viols"].append((case, r.viol))
  if len(agg["outcomes"]) > 5000:
    agg["outcomes"] = collections.Counter(dict(agg["outcomes"].most_common(5000)))
  return kname, agg


def merge_extra(total, extra):
  """Named counters are summed, except those called max_* which keep the maximum."""
  for k, v in extra.items():
    if k.startswith("max_"):
      total[k] = max(total.get(k, 0), v)
    else:
      total[k] += v


def chunks_of(iterable, n):
  it = iter(iterable)
  while True:
    c = list(itertools.islice(it, n))
    if not c:
      return
    yield c


# --------------------------------------------------------------------------
class Run(object):
  def __init__(self, module, tier, seed):
    self.module = module
    self.pid = module.PROPERTY
    self.level = module.LEVEL
    self.tier, self.seed = tier, seed
    self.t0 = time.time()
    self.per_kind = collections.OrderedDict()
    self.viols = []          # (kind, case, viol)
    self.samples = []
    self.coverage = {}       # extra keys written by custom drivers
    self.assumptions = list(getattr(module, "ASSUMPTIONS", []))
    self.caps = []
    self.pool = None

  # --- helpers for generators ------------------------------------------
  def rot(self, seq):
    seq = list(seq)
    if not seq:
      return seq
    k = self.seed % len(seq)
    return seq[k:] + seq[:k]

  @property
  def quick(self):
    return self.tier == "quick"

  def pick(self, quick, thorough):
    return quick if self.tier == "quick" else thorough

  # --- pool ---------------------------------------------------------------
  def get_pool(self):
    if self.pool is None:
      ctx = mp.get_context("fork")
      self.pool = ctx.Pool(NPROC, _init_worker, (self.module.__name__,))
    return self.pool

  def close_pool(self):
    if self.pool is not None:
      self.pool.terminate()
      self.pool.join()
      self.pool = None

  def _guarded(self, results):
    """Iterate pool results, but notice a worker that died (killed by the kernel, crashed
    interpreter): multiprocessing would wait for its lost task for ever."""
    if self.pool is None:
      for item in results:
        yield item
      return
    pids = set(p.pid for p in self.pool._pool)
    while True:
      try:
        yield results.next(timeout=10)
      except StopIteration:
        return
      except mp.TimeoutError:
        now = set(p.pid for p in self.pool._pool if p.exitcode is None)
        if not pids <= now:
          raise RuntimeError("a worker process died (killed or crashed) while running kind cases; "
                             "its case cannot be identified - re-run with VERIF_WORKERS=1")

  def _guard_gen(self, kname, cases):
    """Enumerating the cases may itself call the library (strategy names, tables of functions):
    if that raises, it is reported as a violation of this kind, not as a crash of the check."""
    try:
      for c in cases:
        yield c
    except Exception as exc:
      tb = traceback.format_exc().splitlines()[-6:]
      v = bad("generator-exception:" + type(exc).__name__,
              "enumerating the cases of this kind raised: the library failed while the menu of cases "
              "(names of strategies, tables of functions, ...) was being read", None,
              {"exc": type(exc).__name__, "msg": str(exc)[:300], "tb": tb}).viol
      v["replay_kind"] = kname
      v["replay_case"] = {"generator": kname, "tier": self.tier, "seed": self.seed}
      self.viols.append((kname, {"generator": kname}, v))

  def run_kind(self, kname, cases=None, quiet=False):
    kind = self.module.KINDS[kname]
    t0 = time.time()
    if cases is None:
      cases = kind.gen(self)
    st = self.per_kind.setdefault(kname, {
        "evaluations": 0, "nontrivial": set(), "outcomes": collections.Counter(),
        "violations": 0, "wall_s": 0.0, "rule": kind.rule,
        "extra": collections.Counter(), "succ": {}})
    cases = self._guard_gen(kname, cases)
    jobs = ((kname, c) for c in chunks_of(cases, kind.chunk))
    if NPROC == 1:
      _init_worker(self.module.__name__)
      results = map(_work, jobs)
    else:
      results = self.get_pool().imap_unordered(_work, jobs)
    nsamp = 0
    for _, agg in self._guarded(results):
      st["evaluations"] += agg["n"]
      st["nontrivial"] |= agg["nontrivial"]
      st["outcomes"].update(agg["outcomes"])
      merge_extra(st["extra"], agg["extra"])
      for k, h in agg["succ"].items():
        st["succ"].setdefault(k, h)
      if agg["first"] is not None and nsamp < 3:
        nsamp += 1
        self.samples.append({"kind": kname, "case": agg["first"]})
      for case, v in agg["viols"]:
        st["violations"] += 1
        self.viols.append((kname, case, v))
    st["wall_s"] += time.time() - t0
    if quiet:
      return st
    print("  %-28s %9d cases  %8d non-trivial  %5d outcomes  %3d viol  %6.1fs"
          % (kname, st["evaluations"], len(st["nontrivial"]),
             len(st["outcomes"]), st["violations"], time.time() - t0))
    sys.stdout.flush()
    return st

  # --- verdict ---------------------------------------------------------------
  def finish(self):
    from .exact import to_json
    self.close_pool()
    known = load_known(self.pid)
    reported, lines, known_hit = [], [], {}
    by_key = collections.OrderedDict()
    for kname, case, v in self.viols:
      by_key.setdefault((kname, v["key"]), []).append((case, v))
    status = 0
    for (kname, key), lst in by_key.items():
      case, v = lst[0]
      art = {"property": self.pid, "kind": v.get("replay_kind", kname),
             "case": to_json(v.get("replay_case", case)),
             "key": key, "what": v["what"], "expected": v["expected"],
             "observed": v["observed"], "occurrences": len(lst)}
      k = match_known(known, key)
      if k is not None:
        if key in known_hit:                 # the same finding met by another kind: one line per finding
          known_hit[key] += len(lst)
          continue
        path = write_artefact(art, known=True)
        known_hit[key] = len(lst)
        lines.append("KNOWN-FINDING: property=%s %s [%s; replay=%s]"
                     % (self.pid, k["what"], key, path))
        continue
      if len(reported) >= 8:
        continue
      path = write_artefact(art)
      ok = confirm(self.pid, path)
      if ok is None:
        # Not reproduced by the case alone: the library may keep state between calls (a cache keyed too
        # coarsely, a class-level buffer).  Replay the case after the cases the same worker process ran before
        # it in its chunk; if THAT reproduces twice with the same observation it is a violation whose artefact
        # carries the history it needs.
        pre = next((vv.get("prelude") for cc, vv in lst if vv.get("prelude")), None)
        if pre:
          cand = next((cc, vv) for cc, vv in lst if vv.get("prelude"))
          art2 = dict(art, case=to_json(cand[0]), prelude=to_json(pre),
                      what=cand[1]["what"] + " [reproduces only after the %d cases run before it in the same "
                                             "process: state kept between calls]" % len(pre),
                      expected=cand[1]["expected"], observed=cand[1]["observed"])
          path2 = write_artefact(art2)
          if confirm(self.pid, path2):
            ok, path, v = True, path2, dict(cand[1], what=art2["what"])
            case = cand[0]
      if ok is None:
        print("HARNESS-NONDETERMINISM property=%s replay=%s (two replays of the "
              "artefact disagree; not reported as a violation)" % (self.pid, path))
        status = 3
        continue
      reported.append(path)
      lines.append("VIOLATION property=%s replay=%s" % (self.pid, path))
      lines.append("  kind=%s key=%s\n  what: %s\n  case: %s\n  expected: %s\n  observed: %s"
                   % (kname, key, v["what"], json.dumps(to_json(case))[:400],
                      json.dumps(v["expected"])[:400], json.dumps(v["observed"])[:400]))
    nviol = sum(len(l) for (kn, key), l in by_key.items()
                if match_known(known, key) is None)
    self.write_evidence(nviol, known_hit)
    for l in lines:
      print(l)
    wall = time.time() - self.t0
    if reported:
      print("FAIL property=%s violations=%d wall=%.1fs" % (self.pid, nviol, wall))
      return 1
    if getattr(self, "driver_error", None):
      print("HARNESS-ERROR property=%s the check's driver crashed without reporting a violation:\n%s"
            % (self.pid, self.driver_error))
      return 3
    if status:
      return status
    print("OK property=%s tier=%s seed=%d evaluations=%d wall=%.1fs"
          % (self.pid, self.tier, self.seed, self.total_evaluations(), wall))
    return 0

  def total_evaluations(self):
    return sum(s["evaluations"] for s in self.per_kind.values())

  def write_evidence(self, nviol, known_hit):
    from .exact import to_json
    ev_total = self.total_evaluations()
    nontriv = sum(len(s["nontrivial"]) for s in self.per_kind.values())
    rule = getattr(self.module, "RULE", "")
    per_kind = collections.OrderedDict()
    for k, s in self.per_kind.items():
      per_kind[k] = {"evaluations": s["evaluations"],
                     "distinct_nontrivial": len(s["nontrivial"]),
                     "distinct_outcomes": len(s["outcomes"]),
                     "violations": s["violations"],
                     "rule": s["rule"], "wall_s": round(s["wall_s"], 2)}
      if s["extra"]:
        per_kind[k]["counters"] = dict(s["extra"])
    cov = {"evaluations": ev_total, "distinct_nontrivial": nontriv,
           "rule": rule, "samples": to_json(self.samples[:24]),
           "exhaustive": not self.caps, "per_kind": per_kind,
           "bounds": to_json(getattr(self.module, "bounds", lambda run: {})(self)),
           "workers": NPROC, "source_tree": REPO}
    if self.caps:
      cov["caps_hit"] = self.caps
    if known_hit:
      cov["known_findings_hit"] = known_hit
    cov.update(self.coverage)
    ev = {"property_id": self.pid, "tier": self.tier, "seed": self.seed,
          "level": self.level, "coverage": cov,
          "assumptions": self.assumptions,
          "wall_s": round(time.time() - self.t0, 2), "violations": nviol}
    d = os.path.join(OUT, "evidence")
    os.makedirs(d, exist_ok=True)
    tmp = os.path.join(d, ".%s.json.tmp%d" % (self.pid, os.getpid()))
    with open(tmp, "w") as f:
      json.dump(ev, f, indent=1, sort_keys=False)
      f.write("\n")
    os.replace(tmp, os.path.join(d, "%s.json" % self.pid))


# --------------------------------------------------------------------------
def load_known(pid):
  path = os.path.join(VERIF, "known_findings.json")
  if not os.path.exists(path):
    return []
  with open(path) as f:
    data = json.load(f)
  return [e for e in data.get("entries", []) if e.get("property") == pid
          and e.get("status") == "finding"]


def match_known(known, key):
  for e in known:
    if e["key"] == key:
      return e
  return None


def write_artefact(art, known=False):
  d = os.path.join(OUT, "replays")
  os.makedirs(d, exist_ok=True)
  h = hashlib.sha1(json.dumps([art["kind"], art["case"], len(art.get("prelude") or [])], sort_keys=True)
                   .encode()).hexdigest()[:12]
  name = "%s-%s%s.json" % (art["property"], "known-" if known else "", h)
  path = os.path.join(d, name)
  with open(path, "w") as f:
    json.dump(art, f, indent=1)
    f.write("\n")
  return path


def replay(module, path, quiet=False):
  """Re-run one artefact on the real code, with no explorer involved."""
  from .exact import from_json, to_json
  with open(path) as f:
    art = json.load(f)
  kind = module.KINDS[art["kind"]]
  signal.signal(signal.SIGALRM, _alarm)
  limit_memory()     # a case that allocates without end must meet MemoryError here too
  case = _tuplify(from_json(art["case"]))
  if isinstance(case, dict) and "generator" in case:
    # the violation was raised while the cases were enumerated: enumerate them again
    def regen(_):
      run = Run(module, case.get("tier", "quick"), int(case.get("seed", 0)))
      for _c in kind.gen(run):
        pass
      return R()
    r = run_one(Kind(None, regen, timeout=600), case)
    if r.viol is not None and r.viol["key"].startswith("harness-exception:"):
      r.viol["key"] = "generator-exception:" + r.viol["key"].split(":", 1)[1]
  else:
    for pc in from_json(art.get("prelude") or []):
      run_one(kind, pc)                    # the history the violation needs (results not looked at)
    r = run_one(kind, case)
  obs = None if r.viol is None else {"key": r.viol["key"],
                                     "observed": r.viol["observed"]}
  print("REPLAY " + json.dumps(obs, sort_keys=True))
  if r.viol is not None:
    if not quiet:
      print("VIOLATION property=%s replay=%s" % (art["property"], path))
      print("  what: %s\n  expected: %s\n  observed: %s" % (
          r.viol["what"], json.dumps(r.viol["expected"])[:600],
          json.dumps(r.viol["observed"])[:600]))
    return 1
  if not quiet:
    print("OK replay does not violate the property on this tree")
  return 0


def _tuplify(x):
  """Cases are tuples when generated and lists after a JSON round trip; the
  case runners accept both, but digests should not matter here."""
  return x


def confirm(pid, path):
  """Replay the artefact twice in fresh processes.  True: reproduced twice
  with the same observation.  None: the two replays disagree."""
  outs = []
  for _ in range(2):
    p = subprocess.run([sys.executable, "-m", "mc.runner", pid, "--replay", path,
                        "--quiet"], cwd=VERIF, stdout=subprocess.PIPE,
                       stderr=subprocess.STDOUT, universal_newlines=True,
                       env=dict(os.environ, PYTHONHASHSEED="0",
                                PYTHONWARNINGS="ignore"))
    line = [l for l in p.stdout.splitlines() if l.startswith("REPLAY ")]
    outs.append((p.returncode, line[-1] if line else p.stdout[-300:]))
  if outs[0] != outs[1] or outs[0][0] != 1:
    return None
  return True


# --------------------------------------------------------------------------
def main(argv=None):
  ap = argparse.ArgumentParser()
  ap.add_argument("prop")
  ap.add_argument("--tier", default=os.environ.get("VERIF_TIER", "quick"),
                  choices=["quick", "thorough"])
  ap.add_argument("--seed", type=int,
                  default=int(os.environ.get("VERIF_SEED", "0") or 0))
  ap.add_argument("--replay")
  ap.add_argument("--quiet", action="store_true")
  ap.add_argument("--only", help="comma separated kinds (debugging; evidence "
                  "is then marked partial)")
  a = ap.parse_args(argv)
  bind_repo()
  modname = "mc.checks." + a.prop.lower()
  try:
    module = importlib.import_module(modname)
  except Exception:
    # The check could not even be set up on this tree (the library does not import, a name the check is
    # anchored in is gone, the C17 harness met a threading primitive it does not model): nothing was decided.
    # Never a bare traceback with exit 1 - that would look like a violation without its VIOLATION line.
    print("HARNESS-ERROR property=%s the check could not be loaded on tree %s; nothing was explored:\n%s"
          % (a.prop, REPO, traceback.format_exc()))
    return 3
  if a.replay:
    return replay(module, a.replay, a.quiet)
  run = Run(module, a.tier, a.seed)
  print("check %s tier=%s seed=%d tree=%s workers=%d"
        % (a.prop, a.tier, a.seed, REPO, NPROC))
  only = set(a.only.split(",")) if a.only else None
  if only and not os.environ.get("VERIF_OUT"):
    # a partial (debugging) run must never replace the evidence of a full run
    global OUT
    OUT = os.path.join(tempfile.gettempdir(), "verif-scratch-out")
  try:
    for kname, kind in module.KINDS.items():
      kind.name = kname
      if kind.gen is None or (only and kname not in only):
        continue
      run.run_kind(kname)
    if hasattr(module, "main") and not only:
      try:
        module.main(run)
      except Exception:
        # the violations collected so far must still be reported; a driver crash with no
        # violation at all is a harness error (exit 3), never silence
        run.driver_error = traceback.format_exc()
        run.caps.append("custom driver crashed: " + run.driver_error.strip().splitlines()[-1])
    if only:
      run.caps.append("partial run: --only " + a.only)
    return run.finish()
  finally:
    run.close_pool()


if __name__ == "__main__":
  # the checks are written for, and registered with, the repository's own interpreter (./check); started
  # under another python (a bare `python3 -m mc.runner`), hand over to it with the same environment
  _py = "/venv/bin/python"
  if os.path.exists(_py) and os.path.realpath(sys.executable) != os.path.realpath(_py) \
     and not os.environ.get("VERIF_NO_REEXEC"):
    os.environ.setdefault("PYTHONHASHSEED", "0")
    os.environ.setdefault("PYTHONWARNINGS", "ignore")
    os.environ.setdefault("PYTHONDONTWRITEBYTECODE", "1")
    os.environ["VERIF_NO_REEXEC"] = "1"
    os.execv(_py, [_py, "-m", "mc.runner"] + sys.argv[1:])
  sys.exit(main())
