"""
Exact numbers for the bounded-exhaustive checks.

``Q``   an exact rational that *absorbs* int, float (converted exactly: every
        float is a dyadic rational) and Fraction operands and always returns
        ``Q``, so the float constants AudioLazy mixes into its generic
        arithmetic (``0.``, ``1.``, ``.5``, ``1./size``) never make a sample
        decay to ``float``.
``Sym`` linear forms over Q in named symbols.  Linear tools (filters,
        overlap-add, mixers, resamplers) are run *once* on symbols and thereby
        decided for every numeric input of that shape.  Non-linear use
        (product of two forms, truth value, ordering) raises ``NonLinear`` so
        that a value-dependent branch in the code under test cannot go
        unnoticed.
"""
from fractions import Fraction
import math
import numbers

__all__ = ["Q", "Sym", "NonLinear", "sym", "syms", "to_json", "from_json",
           "qlist"]


def _frac(x):
  """Exact Fraction of an int / float / Fraction / Q / "a/b" string."""
  if isinstance(x, Q):
    return x.f
  if isinstance(x, bool):
    return Fraction(int(x))
  if isinstance(x, (int, Fraction)):
    return Fraction(x)
  if isinstance(x, float):
    if math.isinf(x) or math.isnan(x):
      raise OverflowError("non-finite float has no exact value")
    return Fraction(x)
  if isinstance(x, str):
    return Fraction(x)
  raise TypeError("not an exact number: %r" % (x,))


def _is_num(x):
  return isinstance(x, (int, float, Fraction, Q)) and not (
      isinstance(x, float) and (math.isinf(x) or math.isnan(x)))


class Q(object):
  __slots__ = ("f",)

  def __init__(self, a=0, b=None):
    f = _frac(a)
    if b is not None:
      f = f / _frac(b)
    self.f = f

  # -- conversions -----------------------------------------------------
  def __repr__(self):
    if self.f.denominator == 1:
      return "Q(%d)" % self.f.numerator
    return "Q(%d, %d)" % (self.f.numerator, self.f.denominator)
  __str__ = __repr__

  def __float__(self): return float(self.f)
  def __int__(self): return int(self.f)
  def __trunc__(self): return math.trunc(self.f)
  def __floor__(self): return math.floor(self.f)
  def __ceil__(self): return math.ceil(self.f)
  def __index__(self):
    if self.f.denominator != 1:
      raise TypeError("non-integer Q used as index")
    return self.f.numerator
  def __round__(self, n=None):
    r = round(self.f, n) if n is not None else round(self.f)
    return r if n is None else Q(r)
  def __bool__(self): return self.f != 0
  def __hash__(self): return hash(self.f)
  def is_integer(self): return self.f.denominator == 1
  @property
  def real(self): return self
  @property
  def imag(self): return Q(0)
  def conjugate(self): return self

  # -- arithmetic ------------------------------------------------------
  def _bin(self, other, fn, swap=False):
    if isinstance(other, Sym):
      return NotImplemented
    if isinstance(other, float) and (math.isinf(other) or math.isnan(other)):
      a = float(self.f)
      return fn(other, a) if swap else fn(a, other)
    if isinstance(other, complex):
      a = complex(float(self.f))
      return fn(other, a) if swap else fn(a, other)
    if not _is_num(other):
      return NotImplemented
    o = _frac(other)
    r = fn(o, self.f) if swap else fn(self.f, o)
    return Q(r) if isinstance(r, (int, Fraction)) else r

  def __add__(self, o): return self._bin(o, lambda a, b: a + b)
  def __radd__(self, o): return self._bin(o, lambda a, b: a + b, True)
  def __sub__(self, o): return self._bin(o, lambda a, b: a - b)
  def __rsub__(self, o): return self._bin(o, lambda a, b: a - b, True)
  def __mul__(self, o): return self._bin(o, lambda a, b: a * b)
  def __rmul__(self, o): return self._bin(o, lambda a, b: a * b, True)
  def __truediv__(self, o): return self._bin(o, lambda a, b: a / b)
  def __rtruediv__(self, o): return self._bin(o, lambda a, b: a / b, True)
  def __floordiv__(self, o): return self._bin(o, lambda a, b: a // b)
  def __rfloordiv__(self, o): return self._bin(o, lambda a, b: a // b, True)
  def __mod__(self, o): return self._bin(o, lambda a, b: a % b)
  def __rmod__(self, o): return self._bin(o, lambda a, b: a % b, True)
  def __divmod__(self, o):
    if not _is_num(o): return NotImplemented
    d, m = divmod(self.f, _frac(o))
    return Q(d), Q(m)
  def __rdivmod__(self, o):
    if not _is_num(o): return NotImplemented
    d, m = divmod(_frac(o), self.f)
    return Q(d), Q(m)

  def __pow__(self, o):
    if isinstance(o, Sym): return NotImplemented
    if _is_num(o):
      e = _frac(o)
      if e.denominator == 1:
        return Q(self.f ** e.numerator)
      r = float(self.f) ** float(e)     # irrational in general
      return r
    return NotImplemented
  def __rpow__(self, o):
    if _is_num(o):
      if self.f.denominator == 1:
        return Q(_frac(o) ** self.f.numerator)
      return float(_frac(o)) ** float(self.f)
    return NotImplemented

  def __neg__(self): return Q(-self.f)
  def __pos__(self): return self
  def __abs__(self): return Q(abs(self.f))

  # -- comparisons -----------------------------------------------------
  def _cmp(self, o, fn):
    if isinstance(o, float) and (math.isinf(o) or math.isnan(o)):
      return fn(float(self.f), o)
    if not _is_num(o):
      return NotImplemented
    return fn(self.f, _frac(o))
  def __eq__(self, o):
    r = self._cmp(o, lambda a, b: a == b)
    return False if r is NotImplemented else r
  def __ne__(self, o):
    r = self._cmp(o, lambda a, b: a != b)
    return True if r is NotImplemented else r
  def __lt__(self, o): return self._cmp(o, lambda a, b: a < b)
  def __le__(self, o): return self._cmp(o, lambda a, b: a <= b)
  def __gt__(self, o): return self._cmp(o, lambda a, b: a > b)
  def __ge__(self, o): return self._cmp(o, lambda a, b: a >= b)


numbers.Real.register(Q)


class NonLinear(Exception):
  """A symbolic sample was used in a non-linear / value-dependent way."""


class Sym(object):
  """Linear form  c + sum_i coef[name_i] * name_i  over Q."""
  __slots__ = ("c", "t")

  def __init__(self, c=0, t=None):
    self.c = _frac(c)
    self.t = {k: v for k, v in (t or {}).items() if v != 0}

  def __repr__(self):
    parts = []
    if self.c != 0 or not self.t:
      parts.append(str(self.c))
    for k in sorted(self.t):
      parts.append("%s*%s" % (self.t[k], k))
    return "Sym(" + " + ".join(parts) + ")"
  __str__ = __repr__

  def key(self):
    return (self.c, tuple(sorted(self.t.items())))
  def __hash__(self): return hash(self.key())

  @staticmethod
  def lift(x):
    if isinstance(x, Sym):
      return x
    if _is_num(x):
      return Sym(_frac(x))
    return None

  def __eq__(self, o):
    o = Sym.lift(o)
    if o is None:
      return False
    return self.c == o.c and self.t == o.t
  def __ne__(self, o): return not (self == o)

  def __bool__(self):
    if not self.t:
      return self.c != 0
    raise NonLinear("truth value of symbolic sample %r" % self)
  def _order(self, o):
    raise NonLinear("ordering of symbolic sample %r" % self)
  __lt__ = __le__ = __gt__ = __ge__ = _order
  def __abs__(self):
    if not self.t:
      return Sym(abs(self.c))
    raise NonLinear("abs of symbolic sample")

  def __add__(self, o):
    o = Sym.lift(o)
    if o is None: return NotImplemented
    t = dict(self.t)
    for k, v in o.t.items():
      t[k] = t.get(k, 0) + v
    return Sym(self.c + o.c, t)
  __radd__ = __add__
  def __neg__(self):
    return Sym(-self.c, {k: -v for k, v in self.t.items()})
  def __pos__(self): return self
  def __sub__(self, o):
    o = Sym.lift(o)
    if o is None: return NotImplemented
    return self + (-o)
  def __rsub__(self, o):
    o = Sym.lift(o)
    if o is None: return NotImplemented
    return o + (-self)
  def __mul__(self, o):
    o = Sym.lift(o)
    if o is None: return NotImplemented
    if o.t and self.t:
      raise NonLinear("product of two symbolic samples")
    if o.t:
      self, o = o, self
    return Sym(self.c * o.c, {k: v * o.c for k, v in self.t.items()})
  __rmul__ = __mul__
  def __truediv__(self, o):
    o = Sym.lift(o)
    if o is None: return NotImplemented
    if o.t:
      raise NonLinear("division by a symbolic sample")
    return Sym(self.c / o.c, {k: v / o.c for k, v in self.t.items()})
  def __rtruediv__(self, o):
    if self.t:
      raise NonLinear("division by a symbolic sample")
    o = Sym.lift(o)
    if o is None: return NotImplemented
    return Sym(o.c / self.c, {k: v / self.c for k, v in o.t.items()})
  def __pow__(self, n):
    if n == 1: return self
    if n == 0: return Sym(1)
    if not self.t and _is_num(n) and _frac(n).denominator == 1:
      return Sym(self.c ** _frac(n).numerator)
    raise NonLinear("power of a symbolic sample")

  def subs(self, env):
    """Numeric value (Q) with symbols replaced from env (name -> number)."""
    r = self.c
    for k, v in self.t.items():
      r += v * _frac(env[k])
    return Q(r)


def sym(name):
  return Sym(0, {name: Fraction(1)})


def syms(prefix, n, start=0):
  return [sym("%s%d" % (prefix, i)) for i in range(start, start + n)]


def qlist(seq):
  return [Q(v) for v in seq]


# --------------------------------------------------------------------------
# JSON round trip of values that appear in cases / artefacts
# --------------------------------------------------------------------------
_TAGS = ("Q", "F", "Sym", "float", "complex", "bytes", "set", "dict", "exc", "repr")


def to_json(v):
  """Lossless, readable JSON encoding of the values used in cases."""
  if isinstance(v, Q):
    return {"Q": str(v.f)}
  if isinstance(v, Sym):
    return {"Sym": [str(v.c), {k: str(c) for k, c in sorted(v.t.items())}]}
  if isinstance(v, Fraction):
    return {"F": str(v)}
  if isinstance(v, bool) or v is None or isinstance(v, (int, str)):
    return v
  if isinstance(v, float):
    if math.isnan(v) or math.isinf(v):
      return {"float": repr(v)}
    return v
  if isinstance(v, complex):
    return {"complex": [v.real, v.imag]}
  if isinstance(v, bytes):
    return {"bytes": v.hex()}
  if isinstance(v, (list, tuple)):
    return [to_json(x) for x in v]
  if isinstance(v, (set, frozenset)):
    return {"set": sorted((to_json(x) for x in v), key=repr)}
  if isinstance(v, dict):
    if all(isinstance(k, str) for k in v) and not any(k in _TAGS for k in v):
      return {k: to_json(x) for k, x in v.items()}
    return {"dict": [[to_json(k), to_json(x)] for k, x in v.items()]}
  if isinstance(v, BaseException):
    return {"exc": type(v).__name__, "msg": str(v)[:200]}
  return {"repr": repr(v)[:300]}


def from_json(v):
  if isinstance(v, list):
    return [from_json(x) for x in v]
  if isinstance(v, dict):
    if "Q" in v: return Q(v["Q"])
    if "F" in v: return Fraction(v["F"])
    if "Sym" in v:
      c, t = v["Sym"]
      return Sym(Fraction(c), {k: Fraction(x) for k, x in t.items()})
    if "float" in v: return float(v["float"])
    if "complex" in v: return complex(*v["complex"])
    if "bytes" in v: return bytes.fromhex(v["bytes"])
    if "set" in v: return set(from_json(x) for x in v["set"])
    if "dict" in v: return {_h(from_json(k)): from_json(x) for k, x in v["dict"]}
    if "exc" in v or "repr" in v: return v
    return {k: from_json(x) for k, x in v.items()}
  return v


def _h(k):
  return tuple(k) if isinstance(k, list) else k
