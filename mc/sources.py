"""Instrumented sources: count how many items a stage pulled, and raise loudly
when a stage reads past its allowance (so an eager stage fails instead of
hanging on an endless source)."""
import itertools


class Overread(Exception):
  """A stage read more source items than the property allows."""


class CountingSource(object):
  """Iterator over ``data`` (any iterable, may be endless) counting next() calls.
  pulls = successful reads; attempts also counts the read that hit the end."""
  def __init__(self, data, limit=None, name="src"):
    self._it = iter(data)
    self.pulls = 0
    self.attempts = 0
    self.limit = limit
    self.name = name
    self.ended = False

  def __iter__(self):
    return self

  def __next__(self):
    self.attempts += 1
    if self.limit is not None and self.pulls >= self.limit:
      raise Overread("%s read past its allowance of %d items" % (self.name, self.limit))
    try:
      v = next(self._it)
    except StopIteration:
      self.ended = True
      raise
    self.pulls += 1
    return v


def endless(start=0, step=1):
  return itertools.count(start, step)
