"""
Calling routes: a documented parameter can be given by position or by keyword.

The main kinds of each check call the library one way (mostly by keyword).  A
change that inserts, reorders or renames a parameter leaves that way intact and
breaks the other.  ``routes_agree`` calls one function with every parameter of
its documented signature set to a distinct non-default value
  * all by position, * all by keyword, * every prefix by position and the rest
    by keyword,
and demands the same canonical result every time.  The values themselves are
decided by the main kinds; this is a differential oracle over the routes.
"""
from .runner import R, bad


def routes_agree(name, f, spec, canon, first_positional_only=0):
  """spec: ordered [(parameter name, factory of a fresh value)]."""
  names = [n for n, _ in spec]
  changed = []
  def call(npos):
    vals = [mk() for _, mk in spec]
    args = vals[:npos]
    kw = {n: v for (n, _), v in zip(spec[npos:], vals[npos:])}
    out = canon(f(*args, **kw))
    # containers handed over by the caller are the caller's: they must be unchanged afterwards
    for (n, mk), v in zip(spec, vals):
      if isinstance(v, (list, dict, tuple)) and repr(v) != repr(mk()):
        changed.append((n, repr(mk())[:200], repr(v)[:200]))
    return out
  results = []
  for npos in range(first_positional_only, len(spec) + 1):
    try:
      results.append((npos, call(npos)))
    except Exception as exc:
      results.append((npos, "EXC %s: %s" % (type(exc).__name__, str(exc)[:120])))
  ref_n, ref = results[0]
  if isinstance(ref, str) and ref.startswith("EXC"):
    return bad("routes:exception", "%s raised when called with its documented parameters" % name,
               {"parameters": names, "positional": ref_n}, ref, True)
  if changed:
    n, before, after = changed[0]
    return bad("routes:argument-changed", "%s changed the %s container it was given" % (name, n), before, after, True)
  for npos, got in results[1:]:
    if got != ref:
      return bad("routes:differ", "%s gives different results depending on which of its documented parameters "
                 "(%s) are given by position and which by keyword" % (name, ", ".join(names)),
                 {"positional": ref_n, "result": _short(ref)}, {"positional": npos, "result": _short(got)}, True)
  return R(None, True, (name, len(spec)))


STRUCTURAL = ("size", "hop", "order", "lag", "delay", "max_lag", "n", "cycles", "eta", "left", "right")


def struct_params(spec):
  out = []
  for n, mk in spec:
    if n in STRUCTURAL:
      v = mk()
      if isinstance(v, int) and not isinstance(v, bool):
        out.append(n)
  return out


def types_agree(name, f, spec, canon, int_params):
  """Structural integer parameters (sizes, hops, orders, lags, delays) given as an integral float, a
  Fraction or - for the value 1 - a bool: where the function accepts the type at all (no TypeError /
  ValueError / AttributeError), the result is the one of the plain int."""
  from fractions import Fraction
  def call(override):
    kw = {n: mk() for n, mk in spec}
    kw.update(override)
    return canon(f(**kw))
  try:
    ref = call({})
  except Exception as exc:
    return bad("types:exception", "%s raised with its documented parameters" % name, None, str(exc)[:200], True)
  tried = accepted = 0
  for pname in int_params:
    v = dict(spec)[pname]()
    alts = [("float", float(v)), ("Fraction", Fraction(v))]
    if v in (0, 1):
      alts.append(("bool", bool(v)))
    for tname, alt in alts:
      tried += 1
      try:
        got = call({pname: alt})
      except Exception:
        continue          # this type is not accepted for this parameter: nothing is promised
      accepted += 1
      if got != ref:
        return bad("types:differ", "%s gives another result when %s is the %s %r instead of the int %r"
                   % (name, pname, tname, alt, v), _short(ref), _short(got), True)
  return R(None, accepted > 0, (name, accepted, tried))


def _short(v):
  s = repr(v)
  return s if len(s) < 400 else s[:400] + "..."


def num(v):
  """Canonical form of one number-like value."""
  try:
    from .exact import Q
    if isinstance(v, Q):
      return str(v.f)
  except Exception:
    pass
  if isinstance(v, complex):
    return [round(v.real, 12), round(v.imag, 12)]
  if isinstance(v, float):
    return repr(v)
  return repr(v)


def seq(values, limit=40):
  out = []
  for v in values:
    out.append(num(v))
    if len(out) >= limit:
      break
  return out
