"""
Boring reference arithmetic for Laurent polynomials and rational functions
with exact coefficients.  A polynomial is a dict {power: Fraction} without
zero entries; in filter use the variable is x = z**-1, so power k is a delay
of k samples.
"""
from fractions import Fraction as F


def P(d):
  """Normalise {power: number} -> {int power: Fraction}, zeros dropped."""
  out = {}
  for k, v in d.items():
    v = F(v)
    if v != 0:
      out[int(k)] = out.get(int(k), F(0)) + v
      if out[int(k)] == 0:
        del out[int(k)]
  return out


def padd(a, b):
  out = dict(a)
  for k, v in b.items():
    out[k] = out.get(k, F(0)) + v
    if out[k] == 0:
      del out[k]
  return out


def pneg(a):
  return {k: -v for k, v in a.items()}


def psub(a, b):
  return padd(a, pneg(b))


def pmul(a, b):
  out = {}
  for k1, v1 in a.items():
    for k2, v2 in b.items():
      out[k1 + k2] = out.get(k1 + k2, F(0)) + v1 * v2
  return {k: v for k, v in out.items() if v != 0}


def pscale(a, c):
  c = F(c)
  return {k: v * c for k, v in a.items() if v * c != 0}


def ppow(a, n):
  out = {0: F(1)}
  for _ in range(n):
    out = pmul(out, a)
  return out


def peval(a, x):
  x = F(x)
  return sum((v * x ** k for k, v in a.items()), F(0))


def pdiff(a):
  return {k - 1: k * v for k, v in a.items() if k != 0}


def pcompose(a, b):
  """a(b(x)) for polynomial a (powers >= 0)."""
  out = {}
  for k, v in a.items():
    out = padd(out, pscale(ppow(b, k), v))
  return out


class RF(object):
  """Rational function num/den (den non-zero), compared by cross-multiplication."""
  def __init__(self, num, den=None):
    self.num = P(num)
    self.den = P(den if den is not None else {0: 1})
    if not self.den:
      raise ZeroDivisionError("zero denominator")

  @staticmethod
  def const(c):
    return RF({0: c})

  def __add__(self, o):
    return RF(padd(pmul(self.num, o.den), pmul(o.num, self.den)), pmul(self.den, o.den))
  def __neg__(self):
    return RF(pneg(self.num), self.den)
  def __sub__(self, o):
    return self + (-o)
  def __mul__(self, o):
    return RF(pmul(self.num, o.num), pmul(self.den, o.den))
  def __truediv__(self, o):
    return RF(pmul(self.num, o.den), pmul(self.den, o.num))
  def inv(self):
    return RF(self.den, self.num)
  def __pow__(self, n):
    if n < 0:
      return self.inv() ** -n
    return RF(ppow(self.num, n), ppow(self.den, n))
  def same(self, o):
    return pmul(self.num, o.den) == pmul(o.num, self.den)
  def is_zero(self):
    return not self.num
  def subst(self, g):
    """Replace z by g, i.e. x = z**-1 by 1/g."""
    ginv = g.inv()
    def ev(p):
      acc = RF({})
      for k, v in p.items():
        acc = acc + RF.const(v) * (ginv ** k if k >= 0 else g ** -k)
      return acc
    return ev(self.num) / ev(self.den)
  def causal_form(self):
    """(num, den) with the denominator shifted to start at delay 0."""
    m = min(self.den)
    sh = lambda p: {k - m: v for k, v in p.items()}
    return sh(self.num), sh(self.den)
  def impulse(self, n):
    """First n samples of the impulse response (zero initial conditions)."""
    num, den = self.causal_form()
    if num and min(num) < 0:
      raise ValueError("non-causal")
    a0 = den[0]
    y = []
    for i in range(n):
      acc = num.get(i, F(0))
      for k, c in den.items():
        if k >= 1 and i - k >= 0:
          acc -= c * y[i - k]
      y.append(acc / a0)
    return y
