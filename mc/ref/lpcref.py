"""Reference Levinson-Durbin step-up / step-down on exact rationals."""
from fractions import Fraction as F


class ZeroError(Exception):
  """Prediction error reached zero: the recursion cannot continue."""


def step_up(ks):
  """Monic predictor a (list, a[0] = 1) from reflection coefficients k_1..k_p."""
  a = [F(1)]
  for k in ks:
    k = F(k)
    ext = a + [F(0)]
    rev = ext[::-1]
    a = [u + k * v for u, v in zip(ext, rev)]
  return a


def acorr_from_reflection(ks, r0=1):
  """Autocorrelation r_0..r_p whose Levinson recursion has reflection coefficients ks."""
  r = [F(r0)]
  a = [F(1)]
  E = F(r0)
  for m, k in enumerate(ks, 1):
    k = F(k)
    # k_m = -(sum_{j=0}^{m-1} a_j r_{m-j}) / E  =>  r_m = -k E - sum_{j=1}^{m-1} a_j r_{m-j}
    rm = -k * E - sum((a[j] * r[m - j] for j in range(1, m)), F(0))
    r.append(rm)
    ext = a + [F(0)]
    a = [u + k * v for u, v in zip(ext, ext[::-1])]
    E = E * (1 - k * k)
  return r


def levinson(r, order):
  """Returns (a, error, ks).  Raises ZeroError when a prediction error is zero."""
  r = [F(v) for v in r] + [F(0)] * max(order + 1 - len(r), 0)
  a = [F(1)]
  E = r[0]
  ks = []
  for m in range(1, order + 1):
    if E == 0:
      raise ZeroError()
    k = -sum((a[j] * r[m - j] for j in range(m)), F(0)) / E
    ks.append(k)
    ext = a + [F(0)]
    a = [u + k * v for u, v in zip(ext, ext[::-1])]
    E = E * (1 - k * k)
  return a, E, ks


def step_down(a):
  """Reflection coefficients, last first, of a monic predictor; ZeroError if |k| = 1."""
  a = [F(v) for v in a]
  out = []
  for m in range(len(a) - 1, 0, -1):
    k = a[m]
    out.append(k)
    if k * k == 1:
      raise ZeroError()
    rev = a[::-1]
    a = [(u - k * v) / (1 - k * k) for u, v in zip(a, rev)][:m]
  return out


def polymul(a, b):
  out = [F(0)] * (len(a) + len(b) - 1)
  for i, u in enumerate(a):
    for j, v in enumerate(b):
      out[i + j] += F(u) * F(v)
  return out
