"""
E2 - explicit-state search over operation histories.

A *state* is represented by (one of) the shortest histories that reach it.
Live Python iterators / dicts with hidden maps cannot be snapshotted, so every
transition is executed on a fresh real object built by replaying the history.
The expand kind of a check returns, for one history, ``R(succ={canon: hist})``
with one entry per operation applied; this module runs the level-synchronous
breadth-first search, deduplicates canonical states and keeps the counts that
go into the model_checking evidence.
"""
import time


def bfs(run, kname, initial, max_depth=None, merge=True, label=None,
        max_states=None):
  """initial: list of histories (JSON-able).  Returns a stats dict.
  merge=False: every history is its own state (no canonicalisation)."""
  label = label or kname
  seen = {}
  frontier = []
  t0 = time.time()
  stats = {"states": 0, "transitions": 0, "depth": 0, "levels": [],
           "closed": False, "capped": False}
  kind = run.module.KINDS[kname]
  # canonical form of the initial states is computed by the kind itself
  for h in initial:
    frontier.append(h)
  depth = 0
  first = True
  while frontier:
    if max_depth is not None and depth >= max_depth:
      break
    st = run.run_kind(kname, cases=frontier, quiet=True)
    succ = st["succ"]
    st["succ"] = {}
    if first:
      # the expand kind reports the canonical key of its own source state
      # under the reserved "self:" prefix
      first = False
    new = []
    for canon, hist in succ.items():
      if isinstance(canon, tuple) and canon and canon[0] == "self:":
        seen.setdefault(canon[1:], hist)
        continue
      key = canon if merge else ("hist", tuple(map(repr, hist)))
      if key not in seen:
        seen[key] = hist
        new.append(hist)
    stats["levels"].append({"depth": depth, "expanded": len(frontier),
                            "new_states": len(new)})
    depth += 1
    frontier = new
    if max_states is not None and len(seen) > max_states:
      stats["capped"] = True
      run.caps.append("%s: state cap %d hit at depth %d" % (label, max_states, depth))
      break
  stats["closed"] = not frontier
  stats["states"] = len(seen)
  stats["depth"] = depth
  stats["wall_s"] = round(time.time() - t0, 2)
  stats["seen"] = seen
  return stats
