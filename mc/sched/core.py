"""
E3 - controlled scheduler for the real ``lazy_io``.

``lazy_io`` is loaded as a private second copy of the module from the tree under
test with ``threading`` replaced by the virtual module built here and
``pyaudio`` / ``_portaudio`` replaced by a recording fake backend.  Virtual
threads run on real OS threads but hold a baton: exactly one runs at a time, so
an execution is a deterministic function of its choice sequence.

Scheduling points: every operation of the virtual threading module (Lock
acquire/release, Event set/clear/is_set/wait, Thread start/join), every backend
call, and every source line of the loaded module that touches an attribute
which is assigned or mutated outside ``__init__`` (found by an AST scan of the
current file, so it follows edits).
"""
import sys, os, ast, types, importlib.util, struct
import threading as _rt          # the REAL threading module
import _thread

_rt.stack_size(256 * 1024)


class Abort(BaseException):
  """Raised inside parked virtual threads when an execution is abandoned."""


class Deadlock(Exception):
  pass


class Livelock(Exception):
  pass


class VThread(object):
  """Scheduler-side record of one virtual thread."""
  def __init__(self, sched, vid, name):
    self.sched, self.vid, self.name = sched, vid, name
    self.baton = _thread.allocate_lock()   # binary semaphore: released = granted
    self.baton.acquire()
    self.parked = False
    self.finished = False
    self.started = False
    self.pending = None        # (kind, obj, enabled_fn, is_yield, label)
    self.os_thread = None
    self.exc = None


class Scheduler(object):
  """The scheduling decision is taken by the thread that holds the baton (no
  separate scheduler thread): continuing the same thread costs no OS context
  switch at all, handing over costs one."""
  def __init__(self, choices=(), horizon=600, line_points=None, modfile=None):
    self.choices = list(choices)     # prefix to replay; afterwards choice 0
    self.horizon = horizon
    self.threads = []
    self.done = _thread.allocate_lock()   # released when the execution is over
    self.done.acquire()
    self.current = None
    self.aborting = False
    self.failure = None              # None | "deadlock" | "livelock" | "diverged"
    self.blocked_at_failure = None
    self.points = []                 # decision points with > 1 candidate
    self.taken = []                  # the choice made at each decision point
    self.steps = 0
    self.trace = []                  # (vid, kind, label) of every granted operation
    self.line_points = line_points or set()
    self.modfile = modfile
    self.local = _rt.local()
    self.state_fn = None             # stateful search: canonical state at every decision point
    self.point_keys = []

  # ---- called from virtual threads -------------------------------------
  def me(self):
    return getattr(self.local, "vt", None)

  def point(self, kind, obj=None, enabled=None, is_yield=False, label=""):
    """Announce the next operation; continue when the scheduler grants it."""
    vt = self.me()
    if vt is None:
      return
    if self.aborting:
      raise Abort()
    vt.pending = (kind, obj, enabled, is_yield, label)
    nxt = self._decide()
    if nxt is None:
      raise Abort()
    if nxt is not vt:
      vt.parked = True
      nxt.baton.release()
      vt.baton.acquire()
      vt.parked = False
      if self.aborting:
        raise Abort()

  def spawn(self, name, target):
    vt = VThread(self, len(self.threads), name)
    self.threads.append(vt)
    def boot():
      self.local.vt = vt
      vt.parked = True
      vt.baton.acquire()             # wait for the first grant ("begin")
      vt.parked = False
      try:
        if self.aborting:
          return
        if self.line_points:
          sys.settrace(self._tracer)
        target()
      except Abort:
        pass
      except BaseException as exc:   # a crash of library code in this thread
        vt.exc = exc
      finally:
        sys.settrace(None)
        vt.finished = True
        vt.pending = None
        if not self.aborting:
          nxt = self._decide()
          if nxt is not None:
            nxt.baton.release()
    vt.os_thread = _rt.Thread(target=boot, daemon=True)
    vt.pending = ("begin", None, None, False, name)
    return vt

  def _tracer(self, frame, event, arg):
    if frame.f_code.co_filename != self.modfile:
      return None
    return self._local_tracer

  def _local_tracer(self, frame, event, arg):
    if event == "line" and frame.f_lineno in self.line_points:
      self.point("line", None, None, False, "L%d" % frame.f_lineno)
    return self._local_tracer

  # ---- the scheduling decision ----------------------------------------------
  def enabled(self, vt):
    if vt.finished or vt.pending is None or not vt.started:
      return False
    en = vt.pending[2]
    return True if en is None else bool(en())

  def _fail(self, kind):
    self.failure = kind
    self.blocked_at_failure = self.blocked_summary()
    self.aborting = True
    self.done.release()
    return None

  def _decide(self):
    """Pick the thread that performs the next operation (None: execution over)."""
    live = [t for t in self.threads if t.started and not t.finished]
    if not live:
      self.done.release()
      return None
    cands = [t for t in live if self.enabled(t)]
    if not cands:
      return self._fail("deadlock")
    cur = self.current
    cur_enabled = cur is not None and cur in cands
    yielding = cur_enabled and cur.pending[3]
    n = len(self.threads) + 1
    base = cur.vid if cur is not None else -1
    rest = sorted((t for t in cands if t is not cur), key=lambda t: (t.vid - base - 1) % n)
    # canonical order: the running thread first (unless it yields), then round robin
    if cur_enabled and not yielding:
      order = [cur] + rest
    elif cur_enabled:
      order = rest + [cur]
    else:
      order = rest
    if len(order) > 1:
      i = len(self.taken)
      c = self.choices[i] if i < len(self.choices) else 0
      if c >= len(order):
        return self._fail("diverged")
      self.points.append({"n": len(order), "costly": bool(cur_enabled),
                          "kinds": [t.pending[0] for t in order], "step": self.steps,
                          "cands": tuple(sorted((t.vid, t.pending[0], t.pending[4]) for t in order))})
      if self.state_fn is not None:
        self.point_keys.append(self.state_fn(self))
      self.taken.append(c)
      nxt = order[c]
    else:
      nxt = order[0]
    self.steps += 1
    if self.steps > self.horizon:
      return self._fail("livelock")
    self.trace.append((nxt.vid, nxt.pending[0], nxt.pending[4]))
    self.current = nxt
    nxt.pending = None
    return nxt

  def run(self):
    """Run to completion.  Raises Deadlock / Livelock (after aborting)."""
    try:
      first = self._decide()
      if first is not None:
        first.baton.release()
        self.done.acquire()
    finally:
      failed = self.failure
      self.abort()
    if failed == "deadlock":
      raise Deadlock()
    if failed == "livelock":
      raise Livelock()
    if failed == "diverged":
      raise RuntimeError("schedule replay diverged from its recorded prefix")

  def start_thread(self, vt):
    vt.started = True
    vt.os_thread.start()

  def abort(self):
    self.aborting = True
    for t in self.threads:
      if t.os_thread is not None and t.os_thread.ident is not None and not t.finished and t.parked:
        try:
          t.baton.release()
        except RuntimeError:
          pass
    for t in self.threads:
      if t.os_thread is not None and t.os_thread.ident is not None:
        t.os_thread.join(2.0)

  def blocked_summary(self):
    if self.blocked_at_failure is not None:
      return self.blocked_at_failure
    out = []
    for t in self.threads:
      if t.started and not t.finished and t.pending is not None:
        out.append("%s:%s(%s)" % (t.name, t.pending[0], t.pending[4]))
    return out


# --------------------------------------------------------------------------
# the virtual ``threading`` module handed to lazy_io
# --------------------------------------------------------------------------
def make_threading(get_sched):
  mod = types.ModuleType("threading")

  mod._objects = []
  mod._persistent = []      # primitives created while the library module is being loaded (class / module level)
  mod._loading = False
  def _register(o):
    mod._objects.append(o)
    if mod._loading:
      mod._persistent.append(o)

  class Lock(object):
    _n = 0
    def __init__(self):
      self.owner = None
      Lock._n += 1
      self.label = "lock%d" % Lock._n
      _register(self)
    def acquire(self, blocking=True, timeout=-1):
      s = get_sched()
      if not blocking:
        s.point("lock.try", self, None, False, self.label)
        if self.owner is not None:
          return False
      else:
        s.point("lock.acquire", self, lambda: self.owner is None, False, self.label)
      self.owner = s.me() or "unscheduled"
      return True
    def release(self):
      s = get_sched()
      if s.aborting:
        self.owner = None
        return
      s.point("lock.release", self, None, False, self.label)
      if self.owner is None:
        raise RuntimeError("release unlocked lock")
      self.owner = None
    def locked(self):
      return self.owner is not None
    def __enter__(self):
      self.acquire()
      return self
    def __exit__(self, *a):
      self.release()

  class Event(object):
    _n = 0
    def __init__(self):
      self.flag = False
      Event._n += 1
      self.label = "event%d" % Event._n
      _register(self)
    def is_set(self):
      get_sched().point("event.is_set", self, None, False, self.label)
      return self.flag
    isSet = is_set
    def set(self):
      get_sched().point("event.set", self, None, False, self.label)
      self.flag = True
    def clear(self):
      get_sched().point("event.clear", self, None, False, self.label)
      self.flag = False
    def wait(self, timeout=None):
      s = get_sched()
      if timeout is not None:
        s.point("event.wait-timeout", self, None, False, self.label)
        return self.flag
      s.point("event.wait", self, lambda: self.flag, False, self.label)
      return True

  class Thread(object):
    def __init__(self, group=None, target=None, name=None, args=(), kwargs=None, daemon=None):
      self._target, self._args, self._kwargs = target, args, kwargs or {}
      self._daemon = bool(daemon)
      self._vt = None
      self.name = name or "Thread"
    @property
    def daemon(self):
      return self._daemon
    @daemon.setter
    def daemon(self, v):
      self._daemon = bool(v)
    def run(self):
      if self._target:
        self._target(*self._args, **self._kwargs)
    def start(self):
      s = get_sched()
      if self._vt is not None:
        raise RuntimeError("threads can only be started once")
      s.point("thread.start", self, None, False, self.name)
      self._vt = s.spawn("player%d" % len(s.threads), self.run)
      s.start_thread(self._vt)
    def join(self, timeout=None):
      s = get_sched()
      if self._vt is None:
        raise RuntimeError("cannot join thread before it is started")
      if timeout is not None:
        s.point("thread.join-timeout", self, None, False, self.name)
        return
      s.point("thread.join", self, lambda: self._vt.finished, False, self._vt.name)
    def is_alive(self):
      return self._vt is not None and not self._vt.finished
    isAlive = is_alive

  class RLock(Lock):
    """Re-entrant: the owner may acquire again; released when the count is back to zero."""
    def __init__(self):
      Lock.__init__(self)
      self.count = 0
    def acquire(self, blocking=True, timeout=-1):
      s = get_sched()
      me = s.me() or "unscheduled"
      if self.owner is me:
        self.count += 1
        return True
      if not Lock.acquire(self, blocking, timeout):
        return False
      self.count = 1
      return True
    def release(self):
      s = get_sched()
      if s.aborting:
        self.owner, self.count = None, 0
        return
      if self.owner is None:
        raise RuntimeError("cannot release un-acquired lock")
      if self.count > 1:
        self.count -= 1
        return
      self.count = 0
      Lock.release(self)
    def _release_all(self):
      n, self.count = self.count, 1
      self.release()
      return n
    def _reacquire(self, n):
      Lock.acquire(self)
      self.count = n

  class Condition(object):
    """threading.Condition over the virtual locks: waiters are woken in the order they started waiting."""
    _n = 0
    def __init__(self, lock=None):
      self._lock = lock if lock is not None else RLock()
      self._waiters = []
      Condition._n += 1
      self.label = "cond%d" % Condition._n
      _register(self)
    def acquire(self, *a, **k):
      return self._lock.acquire(*a, **k)
    def release(self):
      return self._lock.release()
    def __enter__(self):
      self._lock.acquire()
      return self
    def __exit__(self, *a):
      self._lock.release()
    def wait(self, timeout=None):
      s = get_sched()
      if self._lock.owner is None:
        raise RuntimeError("cannot wait on un-acquired lock")
      token = {"notified": False}
      self._waiters.append(token)
      n = self._lock._release_all() if hasattr(self._lock, "_release_all") else (self._lock.release() or 1)
      try:
        if timeout is not None:
          s.point("cond.wait-timeout", self, None, False, self.label)     # may return with or without a notification
        else:
          s.point("cond.wait", self, lambda: token["notified"], False, self.label)
      finally:
        if token in self._waiters:
          self._waiters.remove(token)
        if hasattr(self._lock, "_reacquire"):
          self._lock._reacquire(n)
        else:
          self._lock.acquire()
      return token["notified"]
    def wait_for(self, predicate, timeout=None):
      result = predicate()
      while not result:
        self.wait(timeout)
        result = predicate()
        if timeout is not None:
          break
      return result
    def notify(self, n=1):
      get_sched().point("cond.notify", self, None, False, self.label)
      if self._lock.owner is None:
        raise RuntimeError("cannot notify on un-acquired lock")
      for token in [t for t in self._waiters if not t["notified"]][:n]:
        token["notified"] = True
    def notify_all(self):
      self.notify(len(self._waiters))
    notifyAll = notify_all

  class Semaphore(object):
    _n = 0
    def __init__(self, value=1):
      self.value = self.initial = value
      Semaphore._n += 1
      self.label = "sem%d" % Semaphore._n
      _register(self)
    def acquire(self, blocking=True, timeout=None):
      s = get_sched()
      if not blocking or timeout is not None:
        s.point("sem.try", self, None, False, self.label)
        if self.value <= 0:
          return False
      else:
        s.point("sem.acquire", self, lambda: self.value > 0, False, self.label)
      self.value -= 1
      return True
    def release(self, n=1):
      get_sched().point("sem.release", self, None, False, self.label)
      self.value += n
    def __enter__(self):
      self.acquire()
      return self
    def __exit__(self, *a):
      self.release()

  mod.Lock = Lock
  mod.RLock = RLock
  mod.Condition = Condition
  mod.Semaphore = Semaphore
  mod.BoundedSemaphore = Semaphore
  mod.Event = Event
  mod.Thread = Thread
  mod.ThreadError = RuntimeError
  mod.current_thread = lambda: get_sched().me()
  def _reset_labels():
    n = len(mod._persistent)
    Lock._n = sum(1 for o in mod._persistent if isinstance(o, Lock))
    Event._n = sum(1 for o in mod._persistent if isinstance(o, Event))
    Condition._n = sum(1 for o in mod._persistent if isinstance(o, Condition))
    Semaphore._n = sum(1 for o in mod._persistent if isinstance(o, Semaphore))
    mod._objects[:] = list(mod._persistent)
    for o in mod._persistent:           # shared by every execution: back to the state they were created in
      if isinstance(o, Lock):
        o.owner = None
        if hasattr(o, "count"): o.count = 0
      elif isinstance(o, Event):
        o.flag = False
      elif isinstance(o, Condition):
        o._waiters[:] = []
      elif isinstance(o, Semaphore):
        o.value = o.initial
  mod._reset_labels = _reset_labels
  return mod


# --------------------------------------------------------------------------
# fake PyAudio backend
# --------------------------------------------------------------------------
class BackendError(IOError):
  pass


class FakeStream(object):
  def __init__(self, pa, sid, kw):
    self.pa, self.sid, self.kw = pa, sid, kw
    self._stream = self            # what _portaudio.write_stream receives
    self.running = True            # PyAudio streams start automatically
    self.closed = 0
    self.chunks = []               # (bytes, frames)
    self.log = ["open"]
    self.errors = []
    self.is_input = bool(kw.get("input"))
    self.reads = 0

  def read(self, num_frames, exception_on_overflow=True):
    """Input device: frame number j of this stream holds the sample 500 + j (float32, one channel)."""
    self.pa.sched().point("dev.read", self, None, True, "dev%d" % self.sid)
    self.log.append("read")
    if self.closed or not self.running:
      self.errors.append("read from a %s stream" % ("closed" if self.closed else "stopped"))
      raise BackendError("stream not running")
    import struct as _struct
    n = num_frames * int(self.kw.get("channels", 1))
    data = _struct.pack("%df" % n, *[500.0 + self.reads + i for i in range(n)])
    self.reads += n
    return data

  def stop_stream(self):
    self.pa.sched().point("dev.stop_stream", self, None, False, "dev%d" % self.sid)
    self.log.append("stop")
    if self.closed:
      self.errors.append("stop_stream on a closed stream")
      raise BackendError("stream closed")
    self.running = False

  def start_stream(self):
    self.pa.sched().point("dev.start_stream", self, None, False, "dev%d" % self.sid)
    self.log.append("start")
    if self.closed:
      self.errors.append("start_stream on a closed stream")
      raise BackendError("stream closed")
    self.running = True

  def close(self):
    self.pa.sched().point("dev.close", self, None, False, "dev%d" % self.sid)
    self.log.append("close")
    self.closed += 1
    self.running = False
    if self in self.pa._streams:
      self.pa._streams.remove(self)
    self.pa.events.append(("close", self.sid))

  def write(self, frames, num_frames=None, exception_on_underflow=False):
    self.pa.write_stream(self, frames, num_frames, exception_on_underflow)


class FakePyAudio(object):
  """One instance per AudioIO; records every device call."""
  current = None                   # (sched getter, registry) installed by the harness

  def __init__(self):
    self.sched = FakePyAudio.current[0]
    FakePyAudio.current[1].append(self)
    self._streams = set()
    self.all_streams = []
    self.terminated = 0
    self.events = []

  def open(self, **kw):
    self.sched().point("dev.open", self, None, False, "open")
    if getattr(self, "fail_next_open", False):
      # injected environment answer: the device is busy
      self.fail_next_open = False
      self.events.append(("open-refused", None))
      raise BackendError("device unavailable")
    st = FakeStream(self, len(self.all_streams), kw)
    self._streams.add(st)
    self.all_streams.append(st)
    self.events.append(("open", st.sid))
    return st

  def terminate(self):
    self.sched().point("dev.terminate", self, None, False, "terminate")
    self.terminated += 1
    self.events.append(("terminate", None))

  def get_host_api_count(self):
    return 0

  def write_stream(self, st, data, frames, exc_on_underflow=False):
    st.pa.sched().point("dev.write", st, None, True, "dev%d" % st.sid)
    st.log.append("write")
    if st.closed or not st.running:
      st.errors.append("write to a %s stream" % ("closed" if st.closed else "stopped"))
      raise BackendError("stream not running")
    st.chunks.append((bytes(data), frames))


def make_backend_modules():
  pyaudio = types.ModuleType("pyaudio")
  pyaudio.PyAudio = FakePyAudio
  pyaudio.paFloat32, pyaudio.paInt32, pyaudio.paInt16, pyaudio.paInt8, pyaudio.paUInt8 = 1, 2, 8, 16, 32
  portaudio = types.ModuleType("_portaudio")
  def write_stream(st, data, frames, exc=False):
    st.pa.write_stream(st, data, frames, exc)
  portaudio.write_stream = write_stream
  return pyaudio, portaudio


# --------------------------------------------------------------------------
# loading the private copy and finding the line points
# --------------------------------------------------------------------------
def shared_attribute_lines(path):
  """Lines of AudioIO/AudioThread methods that touch an attribute which is
  assigned outside __init__ or mutated through a method call."""
  tree = ast.parse(open(path).read(), path)
  shared = set()
  for cls in [n for n in ast.walk(tree) if isinstance(n, ast.ClassDef)]:
    for fn in [n for n in cls.body if isinstance(n, ast.FunctionDef)]:
      for node in ast.walk(fn):
        if isinstance(node, ast.Attribute) and isinstance(node.ctx, ast.Store) and fn.name != "__init__":
          shared.add(node.attr)
        if isinstance(node, ast.Call) and isinstance(node.func, ast.Attribute) and \
           node.func.attr in ("append", "remove", "pop", "insert", "extend", "clear", "add", "discard") and \
           isinstance(node.func.value, ast.Attribute):
          shared.add(node.func.value.attr)
  lines = set()
  names = {}
  for cls in [n for n in ast.walk(tree) if isinstance(n, ast.ClassDef) and n.name in ("AudioIO", "AudioThread")]:
    for fn in [n for n in cls.body if isinstance(n, ast.FunctionDef)]:
      if fn.name == "__init__":
        continue
      for node in ast.walk(fn):
        if isinstance(node, ast.Attribute) and node.attr in shared:
          lines.add(node.lineno)
          names.setdefault(node.attr, []).append(node.lineno)
  return lines, names


_loaded = {}


def load_lazy_io(repo, vthreading):
  """Private second copy of audiolazy.lazy_io with threading swapped."""
  path = os.path.join(repo, "audiolazy", "lazy_io.py")
  import audiolazy                      # the package itself (already bound to the tree)
  pyaudio, portaudio = make_backend_modules()
  sys.modules["pyaudio"] = pyaudio
  sys.modules["_portaudio"] = portaudio
  spec = importlib.util.spec_from_file_location("audiolazy._mc_lazy_io", path)
  mod = importlib.util.module_from_spec(spec)
  mod.__package__ = "audiolazy"
  saved = sys.modules.get("threading")
  sys.modules["threading"] = vthreading
  vthreading._loading = True
  try:
    spec.loader.exec_module(mod)
  finally:
    vthreading._loading = False
    sys.modules["threading"] = saved
  if getattr(mod, "threading", None) is not vthreading:
    raise RuntimeError("lazy_io did not pick up the virtual threading module")
  if "__del__" in vars(mod.AudioIO):
    delattr(mod.AudioIO, "__del__")     # GC-timed close() is nondeterminism we do not own
  return mod, path
